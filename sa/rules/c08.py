"""C08 - variation, sampling and search never leave the declared parameter box.

An `InBox(i)` qualifier (value within bounds[0]..bounds[1] of parameter i,
assuming lo <= hi) is inferred with bounded-by facts (D-BOX).

R1  Operator.clip(v, lo, hi) is proved within [lo, hi] by min/max facts.
R2  SBX, polynomial, uniform and non-uniform mutation: every element of a
    returned vector is an unmodified parent element of the same index or the
    result of clip(.., bounds[0], bounds[1]) of the parameter with the same
    index; each per-parameter iteration contributes exactly one element.
R3  generators: gen_number is unit-affine in the bounds then rounded to the
    nearest multiple of the precision (round, not truncation); gen_vector
    appends one number per parameter on every path; the unit-sample scaling of
    LHS/Halton is unit-affine; grid levels are lo + i*(hi-lo)/(k-1), i<k; the
    factorial / Plackett-Burman / Box-Behnken builders only select from level
    lists built from the bounds.
R4  the three update_position overrides leave every coordinate with both
    facts (<= upper, >= lower) on every path.
R5  closure: in the methods reachable from run() of NSGA-II, EpsMOEA, OMOPSO,
    SMPSO, PSOGA (default evaluator) and in Job.evaluate every constructor
    call of an Individual class and every write to `.vector` has a source
    proved InBox by R2-R4, or is a copy; the variation operators wired into
    the five algorithms are among those verified by R2.
"""
import ast

from ..astutil import (text, access_path, calls_in, func_params, stmts_of, is_const, const_value, method_call, single_defs, canon_text,
                       store_targets, range_bounds, canon)
from ..loader import where, AnalysisError
from ..paths import Enumerator
from .. import poly
from ..terms import Terms, PathEnv, specialise, value_term

VERIFIED_OPS = {}     # class name -> True when R2 proved it, False when R2 found a violation, absent when undecided
KNOWN_OPS = ("PmMutator", "UniformMutator", "NonUniformMutation", "SimulatedBinaryCrossover")


def body_fn(stmts, args, lineno=0):
    return ast.FunctionDef(name="body", args=args, body=stmts, decorator_list=[], returns=None, type_comment=None, lineno=lineno, col_offset=0)


# ------------------------------------------------------------------ D-BOX over min/max nests
def minmax_facts(expr, lo, hi, env=None):
    """(>= lo proved, <= hi proved) for a nest of min/max calls over names, assuming lo <= hi"""
    env = env or {}

    def rec(e):
        p = access_path(e)
        if p is not None:
            if p in env:
                return env[p]
            ge = {p} | ({lo} if p == hi else set())
            le = {p} | ({hi} if p == lo else set())
            return ge, le
        if isinstance(e, ast.Call) and access_path(e.func) in ("min", "max") and len(e.args) == 2 and not e.keywords:
            (g1, l1), (g2, l2) = rec(e.args[0]), rec(e.args[1])
            if access_path(e.func) == "min":
                return g1 & g2, l1 | l2
            return g1 | g2, l1 & l2
        return set(), set()
    ge, le = rec(expr)
    return lo in ge, hi in le


def r1_clip(ctx, repo):
    cls = repo.cls("Operator", "operators")
    fn = cls.methods.get("clip")
    if fn is None:
        raise AnalysisError("Operator.clip not found")
    ps = func_params(fn)
    if ps and ps[0] in ("self", "cls"):
        ps = ps[1:]
    rets = [s for s in stmts_of(fn) if isinstance(s, ast.Return)]
    C = "Operator.clip"
    if len(ps) == 3 and len(rets) != 1:
        # several returns (a ladder of comparisons): a function that only compares, takes min/max of and returns its three
        # parameters depends on their ORDER alone, and lo <= hi leaves finitely many orders - each is run through the body
        allowed = (ast.Return, ast.If, ast.IfExp, ast.Compare, ast.Name, ast.Load, ast.Store, ast.Assign, ast.Lt, ast.LtE, ast.Gt, ast.GtE, ast.Eq, ast.NotEq,
                   ast.BoolOp, ast.And, ast.Or, ast.UnaryOp, ast.Not, ast.Call, ast.Pass, ast.Expr, ast.Constant)
        body_nodes = [n for st in fn.body for n in ast.walk(st)]
        pure_order = all(isinstance(n, allowed) for n in body_nodes) and all(access_path(n.func) in ("min", "max") for n in body_nodes if isinstance(n, ast.Call)) \
            and not any(isinstance(n, ast.Constant) and not isinstance(n.value, str) for n in body_nodes)
        if pure_order:
            from ..ivlinterp import Interp as _IvI, Unsupported as _Un
            from ..ivl import DomainError as _DE
            cases = [(v_, 1.0, 3.0) for v_ in (0.0, 1.0, 2.0, 3.0, 4.0)] + [(v_, 2.0, 2.0) for v_ in (1.0, 2.0, 3.0)]
            bad = None
            try:
                for v_, lo_, hi_ in cases:
                    it = _IvI()
                    it.concrete_lib = True
                    kind_ = "static" if any(isinstance(d, ast.Name) and d.id == "staticmethod" for d in fn.decorator_list) else "inst"
                    args_ = [v_, lo_, hi_]
                    r_ = it.call_function(fn, args_ if kind_ == "static" else [None] + args_)
                    want_ = min(max(v_, lo_), hi_)
                    if not isinstance(r_, (int, float)) or r_ != want_:
                        bad = bad or "with (value, lower, upper) ordered like (%g, %g, %g) clip returns %r, the value clipped into [lower, upper] is %g%s" % (
                            v_, lo_, hi_, r_, want_, ": the result is outside the bounds" if not (isinstance(r_, (int, float)) and lo_ <= r_ <= hi_) else "")
            except (_Un, _DE, TypeError, IndexError) as e_:
                ctx.inconclusive("R1", C, where(cls.module, fn), "comparison ladder not evaluable: %s" % e_)
                return None
            if bad:
                ctx.violated("R1", C, where(cls.module, fn), bad)
                return None
            ctx.holds("R1", C, where(cls.module, fn), "a ladder of comparisons over (value, lower, upper): all %d orders with lower <= upper give the value clipped into [lower, upper]" % len(cases))
            return ps
    if len(ps) != 3 or len(rets) != 1:
        ctx.inconclusive("R1", C, where(cls.module, fn), "unexpected shape")
        return None
    v, lo, hi = ps
    rv = Terms(fn).returns[0][1] if Terms(fn).returns else rets[0].value
    ge, le = minmax_facts(rv, lo, hi)
    if ge and le:
        ctx.holds("R1", C, where(cls.module, fn), "%s is within [%s, %s] (given %s <= %s)" % (text(rv), lo, hi, lo, hi))
        return ps
    # a recognised contradiction needs a pure min/max nest over the three parameters; anything else is outside the fragment
    pure = all(isinstance(n, (ast.Call, ast.Name, ast.Load)) and (not isinstance(n, ast.Call) or access_path(n.func) in ("min", "max"))
               and (not isinstance(n, ast.Name) or n.id in (v, lo, hi, "min", "max")) for n in ast.walk(rv))
    ctx.check3(False if pure else None, "R1", C, where(cls.module, fn), "", "%s is not proved %s: a value can leave the box through clip" % (text(rv), ">= " + lo if not ge else "<= " + hi),
               "clip returns %s, which is not a min/max nest over its parameters" % text(rv))
    return None


# ------------------------------------------------------------------ R2 operators
def clip_call_ok(call, selfn, clip_params):
    """is `call` self.clip(x, lo, hi) -> (lo_expr, hi_expr) in the callee's parameter order"""
    if not (isinstance(call, ast.Call) and access_path(call.func) in (selfn + ".clip", "Operator.clip") and len(call.args) == 3):
        return None
    return call.args[1], call.args[2]


def helper_returns_clipped(cls, fn, clip_params):
    """every return of helper fn(self, x, lb, ub, ...) is a value last assigned from self.clip(.., lb, ub); -> (lb_index, ub_index) of params"""
    selfn = func_params(fn)[0]
    ps = func_params(fn)
    res = None
    for p in Enumerator(loop_counts=(0, 1)).function_paths(fn):
        if p.outcome != "return" or p.node.value is None:
            return None
        rv = p.node.value
        call = None
        if isinstance(rv, ast.Call):
            call = rv
        elif isinstance(rv, ast.Name):
            for e in p.events:
                if e.kind == "stmt" and any(access_path(t) == rv.id for t in store_targets(e.node)):
                    call = e.node.value if isinstance(e.node, ast.Assign) else None
        c = clip_call_ok(call, selfn, clip_params) if call is not None else None
        if c is None:
            return None
        lo, hi = access_path(c[0]), access_path(c[1])
        if lo not in ps or hi not in ps:
            return None
        cur = (ps.index(lo), ps.index(hi))
        if res is not None and res != cur:
            return None
        res = cur
    return res


def param_loop(TT, lp, selfn):
    """(index variable or None, text of the parameter element, text of its index) when `lp` walks self.parameters:
    `for i in range(len(self.parameters))` (element self.parameters[i]) or a loop whose variable is bound to
    self.parameters[<index>] (enumerate / zip / plain iteration)"""
    info = TT.loop_of(lp)
    if info is None:
        return None
    if isinstance(lp.target, ast.Name) and info.index == lp.target.id and not info.synthetic:
        hi = text(TT.expand(info.hi, at=lp)) if info.hi is not None else None
        if (info.lo is None or text(info.lo) == "0") and info.step is None and hi == "len(%s.parameters)" % selfn:
            return lp.target.id, "%s.parameters[%s]" % (selfn, lp.target.id), lp.target.id
        return None
    for v_, el_ in getattr(info, "valid_elems", {}).items():
        if isinstance(el_, ast.Subscript) and access_path(el_.value) == selfn + ".parameters":
            iv = [n_.id for n_ in ast.walk(lp.target) if isinstance(n_, ast.Name) and n_.id != v_]
            return (iv[0] if len(iv) == 1 and not info.synthetic else None), v_, text(el_.slice)
    return None


def r2_mutators(ctx, repo, clip_params):
    for cname in ("PmMutator", "UniformMutator", "NonUniformMutation"):
        cls = repo.cls(cname, "operators")
        mod = cls.module
        fn = cls.methods.get("mutate")
        C = "%s.mutate" % cname
        if fn is None:
            raise AnalysisError("%s.mutate not found" % cname)
        selfn, parent = func_params(fn)[:2]
        loops = [s for s in fn.body if isinstance(s, ast.For)]
        rets = [s for s in fn.body if isinstance(s, ast.Return)]
        if len(loops) != 1 or len(rets) != 1 or not isinstance(rets[0].value, ast.Name):
            ctx.inconclusive("R2", C, where(mod, fn), "per-parameter loop / returned list not recognised")
            continue
        lp = loops[0]
        out = rets[0].value.id
        # the loop walks self.parameters: index variable and the parameter element
        from ..terms import self_effects_of
        hdr = param_loop(Terms(fn, self_effects=self_effects_of(repo, cls)), lp, selfn)
        if hdr is None or hdr[0] is None or hdr[2] != hdr[0]:
            ctx.inconclusive("R2", C, where(mod, lp), "loop header %s not recognised" % text(lp.iter))
            continue
        iv, pv = hdr[0], hdr[1]
        bad = None
        unresolved = None
        npaths = 0
        for p in Enumerator(loop_counts=(0, 1)).function_paths(body_fn(lp.body, fn.args, lp.lineno)):
            npaths += 1
            defs = {}
            apps = []
            pe = PathEnv(fn, p.events)
            for k_, e in enumerate(p.events):
                if e.kind == "stmt":
                    s = e.node
                    if isinstance(s, ast.Assign) and len(s.targets) == 1 and isinstance(s.targets[0], ast.Name):
                        defs[s.targets[0].id] = s.value
                    for c in calls_in(s):
                        mc = method_call(c)
                        if mc and access_path(mc[0]) == out and mc[1] == "append":
                            # the appended value with the temporaries of this path looked through (calls stay calls)
                            apps.append(pe.expand_at(c.args[0], k_))
            if len(apps) != 1:
                bad = bad or (lp, "%d elements appended for one parameter on the path [%s] (the child must have the same dimension)" % (len(apps), p.describe(3)))
                continue
            a = apps[0]
            if text(a) == "%s[%s]" % (parent, iv):
                continue                     # unmodified parent element of the same index
            if isinstance(a, ast.Call) and (access_path(a.func) or "").startswith(selfn + "."):
                hname = access_path(a.func).split(".", 1)[1]
                r = repo.find_method(cls, hname)
                idx = helper_returns_clipped(cls, r[1], clip_params) if r else None
                if idx is None:
                    bad = bad or (a, "the mutated value %s does not end in clip(.., lower, upper) on every path" % text(a))
                    continue
                args = [None] + list(a.args)        # align with callee params (self first)
                lo_a, hi_a = args[idx[0]], args[idx[1]]

                def res(n):
                    return text(canon(n, defs)) if n is not None else ""
                if res(lo_a) != "%s['bounds'][0]" % pv or res(hi_a) != "%s['bounds'][1]" % pv:
                    known_other = all("['bounds']" in x_ or x_.replace(".", "", 1).replace("-", "", 1).isdigit() for x_ in (res(lo_a), res(hi_a)))
                    if known_other:
                        bad = bad or (a, "the mutation of parameter %s is clipped to (%s, %s), not to (%s['bounds'][0], %s['bounds'][1])" % (iv, res(lo_a), res(hi_a), pv, pv))
                    else:
                        unresolved = unresolved or (a, "the clip bounds (%s, %s) of the mutation are not resolved" % (res(lo_a), res(hi_a)))
                if text(a.args[0]) != "%s[%s]" % (parent, iv):
                    bad = bad or (a, "the mutated coordinate is %s, not the parent's coordinate %s" % (text(a.args[0]), iv))
            elif isinstance(a, ast.Call) and isinstance(a.func, ast.Name) and not a.func.id[:1].isupper() and a.func.id not in ("min", "max", "float", "int", "round", "abs"):
                # a function value the rule cannot resolve (callback parameter, local closure): nothing is known about its result
                unresolved = unresolved or (a, "the mutated value is produced by %s(...), a function value the rule cannot resolve" % a.func.id)
            else:
                bad = bad or (a, "appended element %s is neither the parent's coordinate nor a clipped mutation" % text(a))
        if bad:
            ctx.violated("R2", C, where(mod, bad[0]), bad[1])
        elif unresolved:
            ctx.inconclusive("R2", C, where(mod, unresolved[0]), unresolved[1])
        else:
            VERIFIED_OPS[cname] = True
            ctx.holds("R2", C, where(mod, fn), "each coordinate is the parent's or clip(mutation, bounds[0], bounds[1]) of the same parameter; one element per parameter (%d body paths)" % npaths)


def r2_sbx(ctx, repo, clip_params):
    cls = repo.cls("SimulatedBinaryCrossover", "operators")
    mod = cls.module
    fn = cls.methods.get("cross")
    C = "SimulatedBinaryCrossover.cross"
    if fn is None:
        raise AnalysisError("SimulatedBinaryCrossover.cross not found")
    selfn, p1, p2 = func_params(fn)[:3]
    rets = [s for s in stmts_of(fn) if isinstance(s, ast.Return)]
    if not rets or not all(isinstance(r_.value, ast.Tuple) and [access_path(e) for e in r_.value.elts] == [access_path(e) for e in rets[0].value.elts] for r_ in rets) \
            or None in [access_path(e) for e in rets[0].value.elts]:
        ctx.inconclusive("R2", C, where(mod, fn), "return of two children not recognised")
        return
    kids = [access_path(e) for e in rets[0].value.elts]
    # children start as copies of the parents
    starts = {}
    for s in fn.body:
        if isinstance(s, ast.Assign) and len(s.targets) == 1 and access_path(s.targets[0]) in kids:
            starts[access_path(s.targets[0])] = s.value
    ok_start = all(k in starts and text(starts[k]) in ("%s.copy()" % p1, "%s.copy()" % p2, "list(%s)" % p1, "list(%s)" % p2) for k in kids)
    if not ok_start:
        ctx.violated("R2", C, where(mod, fn), "the children do not start as copies of the parents (%s)" % {k: text(v) for k, v in starts.items()})
        return
    # the per-parameter loop: some loop variable is an element of self.parameters; the coordinate that is written must
    # have the same index as the parameter whose bounds clip it
    from ..terms import self_effects_of
    TS_ = Terms(fn, self_effects=self_effects_of(repo, cls))
    lp = None
    for cand in [s_ for s_ in stmts_of(fn) if isinstance(s_, ast.For)]:
        hdr = param_loop(TS_, cand, selfn)
        if hdr is not None:
            lp = (cand, hdr)
    if lp is None:
        ctx.inconclusive("R2", C, where(mod, fn), "per-parameter loop not found")
        return
    lp, (iv_, pv, pidx) = lp
    coord_idx = set()
    for s_ in stmts_of(lp):
        if isinstance(s_, ast.Assign):
            for t_ in s_.targets:
                for tt in (t_.elts if isinstance(t_, ast.Tuple) else [t_]):
                    if isinstance(tt, ast.Subscript) and access_path(tt.value) in kids:
                        coord_idx.add(text(TS_.expand(tt.slice, at=s_, elems=True)))
    if coord_idx and coord_idx != {pidx}:
        ctx.violated("R2", C, where(mod, lp), "child coordinate %s is clipped with the bounds of parameter %s (loop `for %s in %s`): a coordinate is moved and clipped "
                     "inside another parameter's box" % (sorted(coord_idx)[0], pidx, text(lp.target), text(lp.iter)))
        return
    if iv_ is None:
        ctx.inconclusive("R2", C, where(mod, lp), "coordinate index of the per-parameter loop not recognised")
        return
    iv = iv_
    bad = None
    npaths = 0
    for p in Enumerator(loop_counts=(0, 1)).function_paths(body_fn(lp.body, fn.args, lp.lineno)):
        npaths += 1
        defs = {}
        clipped = {}
        for e in p.events:
            if e.kind != "stmt":
                continue
            s = e.node
            if isinstance(s, ast.Assign):
                tg = s.targets[0]
                if isinstance(tg, ast.Tuple) and isinstance(s.value, ast.Tuple) and len(tg.elts) == len(s.value.elts):
                    pairs = list(zip(tg.elts, s.value.elts))
                else:
                    pairs = [(tg, s.value)]
                for t, v in pairs:
                    if isinstance(t, ast.Name):
                        defs[t.id] = v
                        c = clip_call_ok(v, selfn, clip_params)
                        if c is not None:
                            lo, hi = text(canon(c[0], defs)), text(canon(c[1], defs))
                            clipped[t.id] = (lo == "%s['bounds'][0]" % pv and hi == "%s['bounds'][1]" % pv, lo, hi)
                        else:
                            clipped.pop(t.id, None)
                    elif isinstance(t, ast.Subscript) and access_path(t.value) in kids:
                        if access_path(t.slice) != iv:
                            bad = bad or (s, "a child coordinate other than the current parameter is written (%s)" % text(t))
                        src = access_path(v)
                        if src in clipped:
                            if not clipped[src][0]:
                                bad = bad or (s, "child coordinate %s is clipped to (%s, %s), not to the bounds of parameter %s" % (iv, clipped[src][1], clipped[src][2], iv))
                        elif text(v) in ("%s[%s]" % (k, iv) for k in kids + [p1, p2]):
                            pass
                        else:
                            bad = bad or (s, "child coordinate %s receives %s, which is not clipped to the bounds" % (iv, text(v)))
            elif isinstance(s, ast.AugAssign) and isinstance(s.target, ast.Subscript) and access_path(s.target.value) in kids:
                bad = bad or (s, "a child coordinate is modified in place without clipping")
    if bad:
        ctx.violated("R2", C, where(mod, bad[0]), bad[1])
    else:
        VERIFIED_OPS["SimulatedBinaryCrossover"] = True
        ctx.holds("R2", C, where(mod, fn), "children are copies of the parents whose coordinates are only replaced by clip(c, bounds[0], bounds[1]) of the same parameter (%d body paths)" % npaths)


# ------------------------------------------------------------------ R3 generators
def _abs_cases(e, lo_t, hi_t):
    """the expression with every |A| resolved by the sign of A, one variant per sign that some lo <= hi allows
    (A linear in the two bounds); (None, reason) when an absolute value cannot be resolved"""
    import copy
    import itertools
    calls = [n for n in ast.walk(e) if isinstance(n, ast.Call) and (access_path(n.func) or "").split(".")[-1] in ("fabs", "abs", "absolute") and len(n.args) == 1]
    if not calls:
        return [(e, "")]
    options = []
    for c in calls:
        try:
            r = poly.norm(c.args[0])
        except poly.NotPolynomial:
            return [(None, "argument of %s not polynomial" % text(c))]
        if r.den != poly.P(1):
            return [(None, "argument of %s not polynomial" % text(c))]
        lo_k, hi_k = poly.key_of(poly.norm(poly.parse(lo_t))), poly.key_of(poly.norm(poly.parse(hi_t)))
        a = b = c0 = 0
        lin = True
        for m, co in r.num.items():
            if m == ():
                c0 = co
            elif len(m) == 1 and m[0][1] == 1 and poly.key_of(poly.R({m: 1})) == hi_k:
                a = co
            elif len(m) == 1 and m[0][1] == 1 and poly.key_of(poly.R({m: 1})) == lo_k:
                b = co
            else:
                lin = False
        if not lin:
            return [(None, "argument of %s is not linear in the two bounds" % text(c))]
        # with hi = lo + d, d >= 0:  A = (a + b) lo + a d + c0
        neg = not (a + b == 0 and a >= 0 and c0 >= 0)
        pos = not (a + b == 0 and a <= 0 and c0 <= 0)
        opts = []
        if pos or not neg:
            opts.append((+1, "%s >= 0" % text(c.args[0])))
        if neg:
            opts.append((-1, "%s < 0 (possible with lower <= upper)" % text(c.args[0])))
        options.append(opts)
    out = []
    for combo in itertools.product(*options):

        class U(ast.NodeTransformer):
            def __init__(self):
                self.i = 0

            def visit_Call(self, n):
                is_abs = (access_path(n.func) or "").split(".")[-1] in ("fabs", "abs", "absolute") and len(n.args) == 1
                if is_abs:
                    sg = combo[self.i][0]
                    self.i += 1
                    arg = self.visit(n.args[0])
                    return arg if sg > 0 else ast.UnaryOp(op=ast.USub(), operand=arg)
                self.generic_visit(n)
                return n
        # ast.walk order (breadth first) differs from the transformer's (depth first): number the calls in transformer order
        order = []

        class O(ast.NodeVisitor):
            def visit_Call(self, n):
                if (access_path(n.func) or "").split(".")[-1] in ("fabs", "abs", "absolute") and len(n.args) == 1:
                    order.append(n)
                    self.visit(n.args[0])
                    return
                self.generic_visit(n)
        O().visit(e)
        pos_of = {id(c): i for i, c in enumerate(calls)}
        combo = [combo[pos_of[id(c)]] for c in order]
        e2 = ast.fix_missing_locations(U().visit(copy.deepcopy(e)))
        label = "; ".join(t for sg, t in combo if sg < 0)
        out.append((e2, label))
    return out


def unit_affine_scaling(ctx, repo, rid="R3"):
    """unit samples of LHS / Halton are mapped to the bounds by lo + w*(hi-lo), column by column"""
    doe = repo.module("doe")
    fn = doe.functions.get("construct_df_from_random_matrix")
    C = "doe.construct_df_from_random_matrix"
    if fn is None:
        raise AnalysisError("construct_df_from_random_matrix not found")
    xs, fl = func_params(fn)[:2]
    TD = Terms(fn)
    apps = []
    for st_ in stmts_of(fn):
        if isinstance(st_, ast.Expr) and method_call(st_.value) and method_call(st_.value)[1] == "append" and st_.value.args:
            ex_ = TD.expand(st_.value.args[0], at=st_)
            if isinstance(ex_, ast.BinOp):
                apps.append(ex_)
    ok = False
    detail = None
    for e in apps:
        idxs = {text(n_.slice) for n_ in ast.walk(e) if isinstance(n_, ast.Subscript) and access_path(n_.value) == fl}
        loopvars = [access_path(t.target) for t in stmts_of(fn) if isinstance(t, ast.For)]
        wn0 = [n_ for n_ in ast.walk(e) if isinstance(n_, ast.Subscript) and access_path(n_.value) in loopvars]
        if len(idxs) != 1 or not wn0:
            continue
        k = next(iter(idxs))
        lo_t, hi_t = "%s[%s][0]" % (fl, k), "%s[%s][1]" % (fl, k)
        if text(wn0[0].slice) != k:
            detail = "the unit sample of column %s is scaled with the bounds of column %s" % (text(wn0[0].slice), k)
            break
        want = poly.parse("{lo} + W * ({hi} - {lo})".format(lo=lo_t, hi=hi_t))
        from .c16 import subst
        verdicts = []
        for e2, case in _abs_cases(e, lo_t, hi_t):
            if e2 is None:
                verdicts.append((None, case))
                continue
            eq = poly.equal(subst(e2, {text(wn0[0]): "W"}), want)
            verdicts.append((eq, case))
        if verdicts and all(v is True for v, _c in verdicts):
            ok = True
        elif any(v is False for v, _c in verdicts):
            case = next(c for v, c in verdicts if v is False)
            detail = "scaling %s is not lo + w*(hi-lo)%s" % (text(e), (" when " + case) if case else "")
    ctx.check3(True if ok else (False if detail else None), rid, C, where(doe, fn), "unit samples are mapped by lo + w*(hi-lo) with the bounds of the same column", detail or "",
               "scaling expression not found", key="unit-affine-doe")


def r3_generators(ctx, repo):
    cls = repo.cls("VectorAndNumbers", "utils")
    mod = cls.module
    fn = cls.methods.get("gen_number")
    C = "VectorAndNumbers.gen_number"
    if fn is None:
        raise AnalysisError("gen_number not found")
    # default distribution is uniform
    a = fn.args
    names = [x.arg for x in a.args]
    dflt = dict(zip(names[len(names) - len(a.defaults):], a.defaults))
    if not (is_const(dflt.get("distribution")) and const_value(dflt["distribution"]) == "uniform"):
        ctx.violated("R3", C, where(mod, fn), "the default distribution is not 'uniform' (the normal draw is unbounded)", key="default-distribution")
    T = Terms(fn)
    vt = value_term(fn)
    if vt is None:
        ctx.inconclusive("R3", C, where(mod, fn), "single returned value not found", key="unit-affine")
        return
    # the value returned for a real-valued uniform draw, written over the parameters
    spec = specialise(vt, {"distribution": "uniform", "p_type": "real"})
    draws = [c for c in ast.walk(spec) if isinstance(c, ast.Call) and access_path(c.func) in ("random", "random.random")]
    anchor = fn
    for s_ in stmts_of(fn):
        if isinstance(s_, ast.Assign) and any(access_path(c.func) in ("random", "random.random") for c in calls_in(s_.value)):
            anchor = s_
    # shape: round(B / precision) * precision
    inner = None
    rcall = None
    if isinstance(spec, ast.BinOp) and isinstance(spec.op, ast.Mult):
        for x, y in ((spec.left, spec.right), (spec.right, spec.left)):
            if isinstance(x, ast.Call) and len(x.args) == 1 and isinstance(x.args[0], ast.BinOp) and isinstance(x.args[0].op, ast.Div) \
                    and text(x.args[0].right) == text(y):
                rcall, inner = x, x.args[0].left
    if not draws:
        ctx.inconclusive("R3", C, where(mod, fn), "uniform draw not found in the returned value %s" % text(spec)[:120], key="unit-affine")
    else:
        expr = inner if inner is not None else spec
        if inner is None:
            # no snapping recognised: take the largest arithmetic sub-term around the draw
            class Strip(ast.NodeTransformer):
                def visit_Call(self, n):
                    if access_path(n.func) in ("round", "int", "np.round", "math.floor", "np.floor", "np.rint", "math.ceil", "float") and len(n.args) == 1:
                        return self.visit(n.args[0])
                    return self.generic_visit(n)
            expr = None

        class U1(ast.NodeTransformer):
            def visit_Call(self, n):
                if access_path(n.func) in ("random", "random.random"):
                    return ast.Name(id="u", ctx=ast.Load())
                return self.generic_visit(n)
        import copy
        if expr is None:
            ctx.inconclusive("R3", C, where(mod, anchor), "draw expression not isolated in %s" % text(spec)[:120], key="unit-affine")
        elif len({(c.lineno, c.col_offset) for c in draws if any(c is n for n in ast.walk(expr))} or {0}) > 1:
            ctx.inconclusive("R3", C, where(mod, anchor), "several draws in one value", key="unit-affine")
        else:
            e2 = U1().visit(copy.deepcopy(expr))
            # the pair of bounds in use: one expression B read as B[0] and B[1] (the parameter itself, or the parameter with
            # its default filled in)
            bases = {text(n_.value) for n_ in ast.walk(e2) if isinstance(n_, ast.Subscript) and is_const(n_.slice) and const_value(n_.slice) in (0, 1)}
            if len(bases) == 1 and next(iter(bases)) != "bounds":
                btxt = next(iter(bases))

                class B1(ast.NodeTransformer):
                    def visit_Subscript(self, n):
                        if text(n.value) == btxt and is_const(n.slice) and const_value(n.slice) in (0, 1):
                            return ast.Subscript(value=ast.Name(id="bounds", ctx=ast.Load()), slice=n.slice, ctx=ast.Load())
                        return self.generic_visit(n)
                e2 = ast.fix_missing_locations(B1().visit(e2))
            want = poly.parse("bounds[0] + u * (bounds[1] - bounds[0])")
            eq = poly.equal(e2, want)
            if eq is False:
                try:
                    r_ = poly.norm(e2)
                    atoms_ = {k_ for m_ in list(r_.num) + list(r_.den) for k_, _e in m_}
                    if not atoms_ <= {"u", "bounds[(1*)]", "bounds[()]", "bounds[0]", "bounds[1]"} and not all(a_ == "u" or a_.startswith("bounds[") for a_ in atoms_):
                        eq = None        # terms the rule does not know: no verdict
                except poly.NotPolynomial:
                    eq = None
            if eq:
                ctx.holds("R3", C, where(mod, anchor), "number = lo + u*(hi-lo), u in [0,1): unit-affine in the bounds", key="unit-affine")
            elif eq is False:
                ctx.violated("R3", C, where(mod, anchor), "the uniform draw %s is not lo + u*(hi-lo) with u in [0,1)" % text(expr), key="unit-affine")
            else:
                ctx.inconclusive("R3", C, where(mod, anchor), "draw expression not normalisable", key="unit-affine")
    snappers = [c for c in ast.walk(spec) if isinstance(c, ast.Call) and access_path(c.func) in
                ("round", "int", "np.round", "math.floor", "np.floor", "np.rint", "math.ceil", "math.trunc")]
    if snappers:
        ranchor = anchor
        for s_ in stmts_of(fn):
            if isinstance(s_, ast.Assign) and any(access_path(c.func) in ("round", "np.round", "np.rint", "int", "math.floor", "np.floor", "math.ceil", "math.trunc")
                                                  for c in calls_in(s_.value)) and "precision" in text(s_.value):
                ranchor = s_
        okr = rcall is not None and access_path(rcall.func) in ("round", "np.round", "np.rint")
        if okr:
            ctx.holds("R3", C, where(mod, ranchor), "rounded to the NEAREST multiple of the precision: at most precision/2 away from the in-box draw", key="rounding")
        else:
            trunc = [c for c in snappers if access_path(c.func) in ("int", "math.floor", "np.floor", "math.ceil", "math.trunc")]
            if trunc:
                ctx.violated("R3", C, where(mod, ranchor), "the draw is snapped to the precision grid with %s, which is not rounding to nearest for every sign (int() truncates toward zero): a value can move a full precision step, beyond the half-precision tolerance, outside the box" % text(spec)[:160], key="rounding")
            else:
                ctx.inconclusive("R3", C, where(mod, ranchor), "rounding expression %s not recognised" % text(spec)[:160], key="rounding")
    # default precision literal
    prec = [s for s in stmts_of(fn) if isinstance(s, ast.Assign) and access_path(s.targets[0]) == "precision" and is_const(s.value)]
    if prec:
        ctx.check(const_value(prec[0].value) <= 1e-12, "R3", C, where(mod, prec[0]), "default precision %r (property: 1e-12)" % const_value(prec[0].value), key="default-precision")

    # gen_vector: one number per parameter on every path
    fn = cls.methods.get("gen_vector")
    C = "VectorAndNumbers.gen_vector"
    loops = [s for s in fn.body if isinstance(s, ast.For)]
    rets = [s for s in fn.body if isinstance(s, ast.Return)]
    if len(loops) != 1 or not rets:
        ctx.inconclusive("R3", C, where(mod, fn), "shape not recognised", key="one-per-parameter")
    else:
        lp = loops[0]
        outn = None
        bad = None
        unknown = None
        n = 0
        # the vector that is returned (appends to other lists - a list of bounds, a temporary - are not coordinates)
        rv0 = rets[-1].value
        while isinstance(rv0, ast.Call) and isinstance(rv0.func, ast.Attribute) and rv0.func.attr == "copy":
            rv0 = rv0.func.value
        if isinstance(rv0, ast.Call) and access_path(rv0.func) in ("list", "copy.copy", "tuple") and rv0.args:
            rv0 = rv0.args[0]
        if isinstance(rv0, ast.Subscript) and isinstance(rv0.slice, ast.Slice) and rv0.slice.lower is None and rv0.slice.upper is None and rv0.slice.step is None:
            rv0 = rv0.value          # x[:]: the same elements
        vec = access_path(rv0)
        for p in Enumerator(loop_counts=(0, 1)).function_paths(body_fn(lp.body, fn.args, lp.lineno)):
            n += 1
            apps_ = [(e.node, c) for e in p.events if e.kind == "stmt" for c in calls_in(e.node) if method_call(c) and method_call(c)[1] == "append"
                     and (vec is None or access_path(method_call(c)[0]) == vec)]
            apps = [c for _, c in apps_]
            if len(apps) != 1:
                bad = bad or "%d coordinates appended for one parameter on the path [%s]" % (len(apps), p.describe(4))
                continue
            outn = access_path(method_call(apps[0])[0])
            # the appended value with the temporaries of this path looked through
            pe = PathEnv(fn, p.events)
            arg = pe.expand(apps[0].args[0], at=apps_[0][0])
            if not (isinstance(arg, ast.Call) and (access_path(arg.func) or "").endswith("gen_number")):
                if isinstance(arg, ast.Name):
                    unknown = unknown or "appended value %s not resolved on the path [%s]" % (text(arg), p.describe(4))
                else:
                    bad = bad or "a coordinate is not produced by gen_number (%s)" % text(arg)
                continue
            # the parameter's bounds (or the interval around its initial value) must be what is passed, unless they are None
            def from_param(x):
                tx = text(x)
                return "['bounds']" in tx or "initial_value" in tx
            bargs = [k.value for k in arg.keywords if k.arg == "bounds"] + list(arg.args[:1])
            passes = any(from_param(b) for b in bargs)
            none_true = False
            for k_, e in enumerate(p.events):
                if e.kind == "guard" and e.val is True and isinstance(e.node, ast.Compare) and len(e.node.ops) == 1 and isinstance(e.node.ops[0], ast.Is) \
                        and text(e.node.comparators[0]) == "None" and from_param(pe.expand_at(e.node.left, k_)):
                    none_true = True
            if not passes and not none_true:
                bad = bad or "a coordinate is drawn without the parameter's bounds on the path [%s]" % p.describe(5)
        rv = access_path(rets[-1].value.func.value) if isinstance(rets[-1].value, ast.Call) and isinstance(rets[-1].value.func, ast.Attribute) else access_path(rets[-1].value)
        if bad:
            ctx.violated("R3", C, where(mod, lp), bad, key="one-per-parameter")
        elif unknown:
            ctx.inconclusive("R3", C, where(mod, lp), unknown, key="one-per-parameter")
        else:
            ctx.holds("R3", C, where(mod, lp), "exactly one gen_number(bounds...) per declared parameter on all %d body paths" % n, key="one-per-parameter")

    unit_affine_scaling(ctx, repo)
    doe = repo.module("doe")

    # UniformGenerator grid: decided by the grid rule of C12 (levels lo + i*(hi-lo)/(k-1), i in [0,k), full product)
    from . import c12
    from .c18 import SubCtx
    c12.r2_grid(SubCtx(ctx, "R3", prefix="grid: "), repo)

    # selection-only builders: every value placed in a design comes from factor_lists[index][...]
    fn = doe.functions.get("construct_df")
    C = "doe.construct_df"
    fl = func_params(fn)[1]
    from ..terms import alpha, fuse
    ok = False
    for _st, t_ in Terms(fn).returns:
        ct = alpha(fuse(t_)) if t_ is not None else None
        if isinstance(ct, ast.ListComp) and isinstance(ct.elt, ast.ListComp):
            e_ = ct.elt.elt
            ok = isinstance(e_, ast.Subscript) and isinstance(e_.value, ast.Subscript) and access_path(e_.value.value) == fl
    ctx.check3(True if ok else None, "R3", C, where(doe, fn), "design values are selected from the level lists (factor_lists[index][code]), never computed",
               unknown_detail="construct_df shape not recognised", key="select-only")
    # column i of a design must belong to parameter i: the builders collect the level lists in the dictionary's
    # (= declaration) order, never in a re-ordered view
    for bname in ("build_lhs", "build_halton", "build_full_fact", "build_plackett_burman", "build_box_behnken"):
        bf = doe.functions.get(bname)
        if bf is None:
            continue
        dparam = func_params(bf)[0]
        coll = [lp_ for lp_ in stmts_of(bf) if isinstance(lp_, ast.For) and any(method_call(c) and method_call(c)[1] == "append" for c in calls_in(lp_))
                and dparam in text(lp_.iter)]
        okb = bool(coll)
        bad_iter = None
        for lp_ in coll:
            it_ = lp_.iter
            plain = access_path(it_) == dparam or (isinstance(it_, ast.Call) and isinstance(it_.func, ast.Attribute) and access_path(it_.func.value) == dparam
                                                   and it_.func.attr in ("keys", "items", "values") and not it_.args)
            if not plain:
                okb = False
                bad_iter = it_
        if bad_iter is not None:
            ctx.violated("R3", "doe.%s" % bname, where(doe, bad_iter), "the level lists are collected over %s instead of the dictionary's own (declaration) order: column i is then scaled with the bounds of a different parameter" % text(bad_iter), key="column-order")
        elif okb:
            ctx.holds("R3", "doe.%s" % bname, where(doe, bf), "level lists collected in declaration order (column i <-> parameter i)", key="column-order")
    for gname in ("FullFactorGenerator", "PlackettBurmanGenerator", "BoxBehnkenGenerator", "LHSGenerator", "HaltonGenerator"):
        g = repo.cls(gname, "operators")
        fn = g.methods.get("generate")
        levels = [s for s in stmts_of(fn) if isinstance(s, ast.Assign) and isinstance(s.targets[0], ast.Subscript) and isinstance(s.value, ast.List)]
        TG = Terms(fn)
        good = bool(levels)
        for s in levels:
            for e in s.value.elts:
                ex = TG.expand(e, at=s)
                t = text(ex)
                owners = {text(n_.value.value) for n_ in ast.walk(ex) if isinstance(n_, ast.Subscript) and isinstance(n_.value, ast.Subscript)
                          and text(n_.value.slice) == "'bounds'"}
                mid = len(owners) == 1 and poly.equal(ex, poly.parse("({o}['bounds'][0] + {o}['bounds'][1]) / 2.0".format(o=next(iter(owners)))))
                if not (t.endswith("['bounds'][0]") or t.endswith("['bounds'][1]") or mid):
                    good = False
        ctx.check3(True if good else (False if levels else None), "R3", "%s.generate" % gname, where(g.module, fn), "level lists are built from the parameter's bounds (and their midpoint) only",
                   "a level list contains a value that is not one of the parameter's bounds (or their midpoint): %s" % "; ".join(text(s_.value) for s_ in levels), "level lists not recognised", key="levels-from-bounds")


# ------------------------------------------------------------------ R4 positions
def r4_positions(ctx, repo):
    n = 0
    for c in repo.subclasses("SwarmAlgorithm"):
        fn = c.methods.get("update_position")
        if fn is None:
            continue
        n += 1
        C = "%s.update_position" % c.name
        loops = [s for s in stmts_of(fn) if isinstance(s, ast.For)]
        inner = [l for l in loops if not any(isinstance(x, ast.For) for x in stmts_of(l) if x is not l)]
        if len(inner) != 1:
            ctx.inconclusive("R4", C, where(c.module, fn), "coordinate loop not found")
            continue
        lp = inner[0]
        # zip(self.parameters, range(len(individual.vector))) -> parameter and index belong together
        hdr_ok = isinstance(lp.iter, ast.Call) and access_path(lp.iter.func) in ("zip", "enumerate")
        bad = None
        npaths = 0
        for p in Enumerator(loop_counts=(0, 1)).function_paths(body_fn(lp.body, fn.args, lp.lineno)):
            npaths += 1
            le = ge = False
            pe = PathEnv(fn, p.events)
            for k_, e in enumerate(p.events):
                if e.kind == "stmt":
                    s = e.node
                    for t in store_targets(s):
                        if ".vector[" in text(pe.expand_at(t, k_)):
                            v = getattr(s, "value", None)
                            vt = text(pe.expand_at(v, k_)) if v is not None else ""
                            if isinstance(s, ast.Assign) and vt.endswith("['bounds'][1]"):
                                le, ge = True, True
                            elif isinstance(s, ast.Assign) and vt.endswith("['bounds'][0]"):
                                le, ge = True, True
                            else:
                                le = ge = False
                elif e.kind == "guard" and isinstance(e.node, ast.Compare) and len(e.node.ops) == 1:
                    lt_, rt_ = text(pe.expand_at(e.node.left, k_)), text(pe.expand_at(e.node.comparators[0], k_))
                    op = type(e.node.ops[0])
                    if ".vector[" in rt_ and ".vector[" not in lt_:
                        # bound OP coordinate: mirror
                        lt_, rt_ = rt_, lt_
                        op = {ast.Gt: ast.Lt, ast.Lt: ast.Gt, ast.GtE: ast.LtE, ast.LtE: ast.GtE}.get(op, op)
                    if ".vector[" not in lt_:
                        continue
                    r = rt_
                    if r.endswith("['bounds'][1]") and op in (ast.Gt,) and e.val is False:
                        le = True
                    if r.endswith("['bounds'][1]") and op in (ast.GtE,) and e.val is False:
                        le = True
                    if r.endswith("['bounds'][1]") and op in (ast.LtE, ast.Lt) and e.val is True:
                        le = True
                    if r.endswith("['bounds'][0]") and op in (ast.Lt,) and e.val is False:
                        ge = True
                    if r.endswith("['bounds'][0]") and op in (ast.LtE,) and e.val is False:
                        ge = True
                    if r.endswith("['bounds'][0]") and op in (ast.GtE, ast.Gt) and e.val is True:
                        ge = True
            if not (le and ge):
                bad = bad or "on the path [%s] the coordinate is not proved %s" % (p.describe(4), "<= upper bound" if not le else ">= lower bound")
        if bad:
            ctx.violated("R4", C, where(c.module, lp), bad)
        else:
            ctx.holds("R4", C, where(c.module, fn), "every coordinate ends within [bounds[0], bounds[1]] on all %d body paths" % npaths)
    if n < 3:
        raise AnalysisError("expected 3 update_position overrides, found %d" % n)


# ------------------------------------------------------------------ R5 closure
ALGOS = (("NSGAII", "algorithm_NSGAII"), ("EpsMOEA", "algorithm_genetic"), ("OMOPSO", "algorithm_swarm"), ("SMPSO", "algorithm_swarm"), ("PSOGA", "algorithm_swarm"))
SAFE_GENERATORS = {"RandomGenerator"}


def r5_closure(ctx, repo):
    indiv = {c.name for c in [repo.cls("Individual", "individual")] + repo.subclasses("Individual")}
    for cname, mname in ALGOS:
        cls = repo.cls(cname, mname)
        mod = cls.module
        C = "%s(closure)" % cname
        # operator wiring: every Crossover/Mutator subclass instantiated by the class (or inherited __init__) must be verified
        wired = []
        for k in repo.mro(cls):
            for mn, fn in k.methods.items():
                if mn not in ("__init__", "run"):
                    continue
                for c in calls_in(fn):
                    nm = access_path(c.func)
                    if nm and repo.has_cls(nm):
                        kc = repo.cls(nm)
                        bases = {b.name for b in repo.mro(kc)}
                        if bases & {"Mutator", "Crossover"}:
                            wired.append((nm, k, c))
        unverified = [(nm, k, c) for nm, k, c in wired if not VERIFIED_OPS.get(nm)]
        disproved = [(nm, k, c) for nm, k, c in unverified if VERIFIED_OPS.get(nm) is False or nm not in KNOWN_OPS]
        if unverified and not disproved:
            nm, k, c = unverified[0]
            ctx.inconclusive("R5", C, where(k.module, c), "the variation operator %s wired into %s could not be decided by R2" % (nm, cname), key="wiring")
        elif unverified:
            nm, k, c = disproved[0]
            ctx.violated("R5", C, where(k.module, c), "the variation operator %s wired into %s is not one of the operators proved to stay in the box %s" % (nm, cname, sorted(VERIFIED_OPS)), key="wiring")
        else:
            ctx.holds("R5", C, where(mod, cls.node), "variation operators wired in: %s (all proved by R2)" % sorted({w[0] for w in wired}), key="wiring")
        # every vector source in the methods of the class hierarchy (algorithm classes only)
        bad = None
        nsites = 0
        for k in repo.mro(cls):
            if k.name in ("Algorithm",):
                continue
            for mn, fn in k.methods.items():
                if mn in ("__init__",):
                    continue
                defs = {}
                for s in stmts_of(fn):
                    if isinstance(s, ast.Assign) and len(s.targets) == 1:
                        tg = s.targets[0]
                        if isinstance(tg, ast.Name):
                            defs[tg.id] = s.value
                        elif isinstance(tg, ast.Tuple) and isinstance(s.value, ast.Call):
                            for e in tg.elts:
                                if isinstance(e, ast.Name):
                                    defs[e.id] = s.value
                    if isinstance(s, ast.For) and isinstance(s.target, ast.Name):
                        defs[s.target.id] = ast.Subscript(value=s.iter, slice=ast.Name(id="_", ctx=ast.Load()), ctx=ast.Load())

                def source_ok(v, depth=0):
                    """is expression v a vector proved in the box?"""
                    if depth > 6:
                        return False
                    t = text(v)
                    if isinstance(v, ast.Call):
                        nm = access_path(v.func) or ""
                        if nm.endswith(".generator.generate"):
                            return True
                        if nm.endswith((".crossover.cross", ".mutator.mutate", "_mutator.mutate")):
                            return True       # operators verified by R2 (wiring rule above)
                        if nm.endswith(".copy") or nm in ("list", "copy", "deepcopy", "copy.copy"):
                            return True
                        if nm.endswith("gen_vector"):
                            return True
                    if isinstance(v, ast.Name) and v.id in defs:
                        return source_ok(defs[v.id], depth + 1)
                    if isinstance(v, ast.Subscript):
                        return source_ok(v.value, depth + 1)
                    if isinstance(v, ast.Attribute) and v.attr == "vector":
                        return True           # the vector of an existing individual (in the box by induction)
                    return False
                for s in stmts_of(fn):
                    # constructor calls
                    for c in calls_in(s) if not isinstance(s, (ast.For, ast.While, ast.If, ast.Try, ast.With)) else []:
                        nm = access_path(c.func) or ""
                        if (nm in indiv or nm.endswith(".__class__")) and c.args:
                            nsites += 1
                            if not source_ok(c.args[0]):
                                bad = bad or (k, c, "%s.%s builds an individual from %s, whose source is not proved inside the box" % (k.name, mn, text(c.args[0])))
                    # writes to .vector / .vector[i]
                    if isinstance(s, (ast.Assign, ast.AugAssign)):
                        for t in store_targets(s):
                            tp = text(t)
                            if tp.endswith(".vector"):
                                nsites += 1
                                if isinstance(s, ast.AugAssign) or not source_ok(s.value):
                                    bad = bad or (k, s, "%s.%s assigns %s = %s, whose source is not proved inside the box" % (k.name, mn, tp, text(getattr(s, "value", s))))
                            elif ".vector[" in tp:
                                nsites += 1
                                if mn != "update_position":
                                    bad = bad or (k, s, "%s.%s writes a coordinate (%s) outside update_position" % (k.name, mn, tp))
        if bad:
            ctx.violated("R5", C, where(bad[0].module, bad[1]), bad[2], key="vector-sources")
        else:
            ctx.holds("R5", C, where(mod, cls.node), "%d constructor / vector-write sites: all sources are generators, verified operators, clamped positions or copies" % nsites, key="vector-sources")
        # statement order in the swarm loops: positions are clamped before the batch is evaluated
        run = cls.methods.get("run")
        if cname in ("OMOPSO", "SMPSO", "PSOGA") and run is not None:
            selfn = func_params(run)[0]
            loops = [s for s in run.body if isinstance(s, ast.While) or isinstance(s, ast.For)]
            main = [l for l in loops if any((access_path(c.func) or "") == selfn + ".update_position" for c in calls_in(l))]
            okord = False
            if main:
                names = [(access_path(c.func) or "") for s in main[0].body for c in calls_in(s) if isinstance(s, ast.Expr)]
                try:
                    iv, ip = names.index(selfn + ".update_velocity"), names.index(selfn + ".update_position")
                    ie = [i for i, nme in enumerate(names) if nme == selfn + ".evaluate"][0]
                    okord = iv < ip < ie
                except (ValueError, IndexError):
                    okord = False
            ctx.check(okord, "R5", "%s.run" % cname, where(mod, run), "per generation: update_velocity, then update_position (clamping), then evaluate" if okord else
                      "the batch is evaluated before its positions are clamped (or the calls are missing)", key="clamp-before-evaluate")
    # Job.evaluate re-sample
    job = repo.method("Job", "evaluate", "job")
    ok = any(isinstance(s, ast.Assign) and any(text(t).endswith(".vector") for t in s.targets) and isinstance(s.value, ast.Call)
             and (access_path(s.value.func) or "").endswith("gen_vector") for s in stmts_of(job))
    others = [s for s in stmts_of(job) if isinstance(s, (ast.Assign, ast.AugAssign)) and any(".vector" in text(t) for t in store_targets(s))
              and not (isinstance(s, ast.Assign) and isinstance(s.value, ast.Call) and (access_path(s.value.func) or "").endswith("gen_vector"))]
    ctx.check(ok and not others, "R5", "Job.evaluate", where(repo.module("job"), job), "the only vector write is the re-sample from gen_vector(parameters)", key="job-resample")


def r6_cached_buffers(ctx, repo):
    """a memoised function hands every caller the SAME object; a consumer that changes its argument in place (x *= w,
    x += lo, x[i] = .., x.sort()) then changes what the next caller gets: the second design is scaled from the first
    design instead of from the unit sample"""
    CACHES = ("lru_cache", "cache", "functools.lru_cache", "functools.cache", "memoize", "memoized")
    cached = {}
    funcs = {}
    for mod in repo.modules.values():
        if mod.name.startswith("test"):
            continue
        for f in mod.functions.values():
            funcs.setdefault(f.name, []).append((mod, f))
            for d in f.decorator_list:
                dn = access_path(d.func) if isinstance(d, ast.Call) else access_path(d)
                if dn in CACHES:
                    rets = [r.value for r in ast.walk(f) if isinstance(r, ast.Return) and r.value is not None]
                    if rets and not all(isinstance(r, (ast.Constant, ast.Tuple)) for r in rets):
                        cached[f.name] = (mod, f)
    if not cached:
        ctx.holds("R6", "memoised generators", "", "no memoised function in the package: every generator call builds its own sample")
        return

    def mutated_params(f):
        ps = func_params(f)
        out = {}
        for n in ast.walk(f):
            if isinstance(n, ast.AugAssign) and isinstance(n.target, ast.Name) and n.target.id in ps:
                # in place for arrays/lists unless the name was rebound to a fresh object before
                rebound = any(isinstance(a, ast.Assign) and any(isinstance(t, ast.Name) and t.id == n.target.id for t in a.targets) and a.lineno < n.lineno for a in ast.walk(f))
                if not rebound:
                    out.setdefault(n.target.id, n)
            elif isinstance(n, (ast.Assign, ast.AugAssign)):
                for t in (n.targets if isinstance(n, ast.Assign) else [n.target]):
                    if isinstance(t, ast.Subscript) and isinstance(t.value, ast.Name) and t.value.id in ps:
                        out.setdefault(t.value.id, n)
            elif isinstance(n, ast.Call) and isinstance(n.func, ast.Attribute) and isinstance(n.func.value, ast.Name) and n.func.value.id in ps \
                    and n.func.attr in ("sort", "append", "extend", "insert", "pop", "clear", "reverse", "fill", "resize", "put", "itemset"):
                out.setdefault(n.func.value.id, n)
        return out
    bad = None
    n_sites = 0
    for mod in repo.modules.values():
        if mod.name.startswith("test"):
            continue
        for f in list(mod.functions.values()) + [m for c in mod.classes.values() for m in c.methods.values()]:
            T = None
            for c in [c for c in ast.walk(f) if isinstance(c, ast.Call)]:
                callee = (access_path(c.func) or "").split(".")[-1]
                if callee not in funcs:
                    continue
                for tmod, tf in funcs[callee]:
                    mp = mutated_params(tf)
                    if not mp:
                        continue
                    ps = func_params(tf)
                    for k, a in list(enumerate(c.args)) + [(ps.index(kw.arg), kw.value) for kw in c.keywords if kw.arg in ps]:
                        if k >= len(ps) or ps[k] not in mp:
                            continue
                        if T is None:
                            T = Terms(f)
                        src = T.expand(a, at=next((st_ for st_ in stmts_of(f) if any(x is c for x in ast.walk(st_))), None)) if not isinstance(a, ast.Call) else a
                        inner = [x for x in ast.walk(src) if isinstance(x, ast.Call) and (access_path(x.func) or "").split(".")[-1] in cached]
                        direct = isinstance(src, ast.Call) and (access_path(src.func) or "").split(".")[-1] in cached
                        if direct:
                            n_sites += 1
                            cm, cf = cached[(access_path(src.func) or "").split(".")[-1]]
                            bad = bad or (mod, c, "%s passes the result of the memoised %s() straight to %s(), which changes that argument in place (%s): the cache now holds the scaled "
                                          "design, and the next call with the same arguments starts from it instead of from the unit sample - its points leave the box"
                                          % (f.name, cf.name, tf.name, text(mp[ps[k]]).split("\n")[0]))
                        elif inner:
                            n_sites += 1
    if bad:
        ctx.violated("R6", "memoised generators", where(bad[0], bad[1]), bad[2])
    else:
        ctx.holds("R6", "memoised generators", "", "results of the memoised function(s) %s are not handed to a function that changes its argument in place (%d use(s) looked at)"
                  % (", ".join(sorted(cached)), n_sites))


def run(ctx):
    ctx.rule("R6", "the unit sample a generator scales is its own: a memoised sample is never changed in place by its consumer")
    r6_cached_buffers(ctx, ctx.repo)
    for rid, doc in (("R1", "clip within [lo, hi]"), ("R2", "SBX / mutators: parent coordinate or clipped to the same parameter's bounds; one element per parameter"),
                     ("R3", "generators unit-affine + nearest rounding; builders select from bound-derived levels"),
                     ("R4", "update_position leaves both bound facts on every path"), ("R5", "closure over the five algorithms and Job.evaluate")):
        ctx.rule(rid, doc)
    ctx.assume("lower bound <= upper bound for every parameter; parents are inside the box (induction over generations); 'real-valued' is not decided")
    ctx.assume("default (pass-through) evaluator; user-supplied generators and integer parameter types are outside the claim")
    VERIFIED_OPS.clear()
    cp = r1_clip(ctx, ctx.repo)
    r2_mutators(ctx, ctx.repo, cp)
    r2_sbx(ctx, ctx.repo, cp)
    r3_generators(ctx, ctx.repo)
    r4_positions(ctx, ctx.repo)
    r5_closure(ctx, ctx.repo)
