"""C04 - the archive holds exactly the non-dominated set of everything offered.

R1  action table of Archive.add per scanned member (verdict x "cost vectors
    equal"): newcomer dominates member -> that member is deleted, scan goes
    on; member dominates newcomer or equal vectors -> newcomer rejected;
    otherwise nothing.  The newcomer is inserted iff it was never rejected.
R2  every path returning True appends the newcomer exactly once, every path
    returning False never.
R3  deletion idiom: the scan iterates a snapshot of the content list; a
    deletion removes the *current* member (index corrected by the number of
    earlier deletions, counter zero before the loop and incremented on
    exactly the deleting paths; or removal of the loop variable).
R4  truncate keeps the `size` members with the largest feature value when
    larger is preferred (order algebra over sorted/reverse/slice).
R5  ownership: the content list is only mutated by __init__/add/truncate/remove
    of the archive class; append/extend/+= delegate to add.
"""
import ast

from ..astutil import (text, access_path, calls_in, func_params, stmts_of, is_const, const_value, method_call,
                       is_method_call, store_targets, fold)
from ..loader import where, AnalysisError
from .. import poly
from ..paths import Enumerator
from ..terms import Terms, PathEnv


def content_attr(cls):
    """name of the attribute that holds the members: the list attribute of self that __init__ creates and the class itself
    iterates / measures (__iter__, __len__) - found in the code, so that renaming it is not an event"""
    init = cls.methods.get("__init__")
    cands = []
    if init is not None:
        me = func_params(init)[0]
        for s_ in stmts_of(init):
            if isinstance(s_, ast.Assign) and len(s_.targets) == 1 and isinstance(s_.targets[0], ast.Attribute) and isinstance(s_.targets[0].value, ast.Name) \
                    and s_.targets[0].value.id == me and (isinstance(s_.value, ast.List) or (isinstance(s_.value, ast.Call) and access_path(s_.value.func) == "list")):
                cands.append(s_.targets[0].attr)
    if len(cands) > 1:
        used = set()
        for mn in ("__len__", "__iter__", "__getitem__"):
            f_ = cls.methods.get(mn)
            if f_ is not None:
                used |= {n.attr for n in ast.walk(f_) if isinstance(n, ast.Attribute) and isinstance(n.value, ast.Name) and n.value.id == func_params(f_)[0]}
        cands = [c for c in cands if c in used] or cands
    if len(cands) != 1:
        raise AnalysisError("the member list of %s is not identified (candidates %s)" % (cls.name, cands))
    return cands[0]


def drop_outside_domain(paths, var, domain):
    """drop paths on which `var == c` was decided False for every c of the domain since var's last assignment"""
    out = []
    for p in paths:
        excl = set()
        ok = True
        for e in p.events:
            if e.kind in ("stmt", "iter") and any(access_path(t) == var for t in store_targets(e.node)):
                excl = set()
            if e.kind == "guard" and isinstance(e.node, ast.Compare) and len(e.node.ops) == 1 and access_path(e.node.left) == var \
                    and is_const(e.node.comparators[0]):
                c = const_value(e.node.comparators[0])
                if isinstance(e.node.ops[0], ast.Eq) and not e.val:
                    excl.add(c)
                if isinstance(e.node.ops[0], ast.NotEq) and e.val:
                    excl.add(c)
                if excl >= set(domain):
                    ok = False
                    break
        if ok:
            out.append(p)
    return out


def is_snapshot(node, path):
    if isinstance(node, ast.Call):
        nm = access_path(node.func)
        if nm in ("list", "tuple", "copy.copy", "copy") and len(node.args) == 1 and access_path(node.args[0]) == path:
            return True
        if isinstance(node.func, ast.Attribute) and node.func.attr == "copy" and access_path(node.func.value) == path:
            return True
        if nm == "enumerate" and node.args:
            return is_snapshot(node.args[0], path)
    if isinstance(node, ast.Subscript) and access_path(node.value) == path and isinstance(node.slice, ast.Slice) \
            and node.slice.lower is None and node.slice.upper is None:
        return True
    return False


def iterates_live(node, path):
    if access_path(node) == path:
        return True
    if isinstance(node, ast.Call) and access_path(node.func) == "enumerate" and node.args:
        return iterates_live(node.args[0], path)
    return False


def check_add(ctx, repo, cls):
    mod = cls.module
    fn = cls.methods.get("add")
    if fn is None:
        raise AnalysisError("Archive.add not found")
    C = "Archive.add"
    selfn, new = func_params(fn)[:2]
    content = selfn + "." + content_attr(cls)
    # the scan loop and the verdict variable
    loops = [s for s in stmts_of(fn) if isinstance(s, ast.For)]
    scan = None
    for lp in loops:
        for s in lp.body:
            if isinstance(s, ast.Assign) and isinstance(s.value, ast.Call) and (access_path(s.value.func) or "").endswith(".compare"):
                scan = (lp, s)
    if scan is None:
        ctx.inconclusive("R1", C, where(mod, fn), "scan loop with a comparator call not found")
        return
    lp, cmp_stmt = scan
    flag = access_path(cmp_stmt.targets[0])
    args = cmp_stmt.value.args
    if len(args) != 2:
        ctx.inconclusive("R1", C, where(mod, cmp_stmt), "comparator call without two arguments")
        return
    a0, a1 = text(args[0]), text(args[1])
    # loop variable naming the current member
    tnames = [n.id for n in ast.walk(lp.target) if isinstance(n, ast.Name)]
    member = [t for t in tnames if (t + ".") in a0 or (t + ".") in a1]
    if not member or not a0.endswith(".costs_signed") or not a1.endswith(".costs_signed"):
        ctx.inconclusive("R1", C, where(mod, cmp_stmt), "comparator arguments are not the signed costs of newcomer and member")
        return
    member = member[0]
    if a0.startswith(new + ".") and a1.startswith(member + "."):
        new_wins, old_wins = 1, 2
    elif a1.startswith(new + ".") and a0.startswith(member + "."):
        new_wins, old_wins = 2, 1
    else:
        ctx.violated("R1", C, where(mod, cmp_stmt), "the comparator is not applied to (newcomer, current member): %s" % text(cmp_stmt.value))
        return
    index_var = [t for t in tnames if t != member]
    index_var = index_var[0] if index_var else None

    # R3 snapshot
    if is_snapshot(lp.iter, content):
        ctx.holds("R3", C, where(mod, lp), "the scan iterates a snapshot: %s" % text(lp.iter), key="snapshot")
    elif iterates_live(lp.iter, content):
        ctx.violated("R3", C, where(mod, lp), "the scan iterates the content list itself while members are deleted from it: the member after each deleted one is skipped", key="snapshot")
    else:
        ctx.inconclusive("R3", C, where(mod, lp), "iteration source %s not recognised" % text(lp.iter), key="snapshot")

    TT = Terms(fn)
    paths = Enumerator(loop_counts=lambda n_: (0, 1, 2) if n_ is lp else (0, 1)).function_paths(fn)
    paths = drop_outside_domain(paths, flag, (0, 1, 2))
    ctx.count("paths_add", len(paths))
    bad = {"R1": None, "R2": None, "R3": None}
    table = {}
    # counter variable for index correction: the name subtracted from the index in the del statement
    for p in paths:
        if p.outcome == "raise":
            continue
        inserted = 0
        rejected = False
        n_deleted = 0
        kvar_val = {}      # counter name -> value tracked along the path
        it_flag = None     # decided verdict in the current iteration
        it_eq = None
        it_deleted = 0
        it_broke = False
        in_loop = False

        def close_iteration():
            nonlocal rejected
            if not in_loop:
                return
            if it_flag == 0 and it_eq is True:
                rejected = True        # a member with the same cost vector: the newcomer must not get in, whatever else was tested
            row = (it_flag, it_eq if it_flag == 0 else None)
            act = "delete" if it_deleted else "none"
            table.setdefault(str(row), set()).add(act)
            if it_flag == new_wins and it_deleted != 1:
                bad["R1"] = bad["R1"] or (p, "a member dominated by the newcomer is %s" % ("not removed" if it_deleted == 0 else "removed %d times" % it_deleted))
            if it_flag != new_wins and it_deleted:
                bad["R1"] = bad["R1"] or (p, "a member is deleted although the newcomer does not dominate it (verdict %s)" % it_flag)
            if it_flag == 0 and it_eq is None:
                bad["R1"] = bad["R1"] or (p, "for an incomparable member the cost vectors are not tested for equality: a duplicate of a member's cost vector is inserted again")
            if it_flag == new_wins and it_broke:
                bad["R1"] = bad["R1"] or (p, "the scan stops after deleting one dominated member: further members dominated by the newcomer stay in the archive")

        for e in p.events:
            if e.kind == "iter" and e.node is lp:
                close_iteration()
                in_loop = True
                it_flag, it_eq, it_deleted, it_broke = None, None, 0, False
            elif e.kind == "break" and in_loop:
                it_broke = True
            elif e.kind == "exit" and e.node is lp:
                close_iteration()
                in_loop = False
            elif e.kind == "guard" and in_loop:
                g = e.node
                if isinstance(g, ast.Compare) and len(g.ops) == 1 and access_path(g.left) == flag and is_const(g.comparators[0]) \
                        and isinstance(g.ops[0], (ast.Eq, ast.NotEq)):
                    truth = e.val if isinstance(g.ops[0], ast.Eq) else not e.val
                    if truth:
                        it_flag = const_value(g.comparators[0])
                elif isinstance(g, ast.Compare) and len(g.ops) == 1 and isinstance(g.ops[0], (ast.Eq, ast.NotEq)) \
                        and {text(g.left), text(g.comparators[0])} == {a0, a1}:
                    it_eq = e.val if isinstance(g.ops[0], ast.Eq) else not e.val
                elif isinstance(g, ast.Call) and len(g.args) == 2 and {text(g.args[0]), text(g.args[1])} == {a0, a1}:
                    # a helper decides "same cost vector": it must be exact equality
                    hn = (access_path(g.func) or "").split(".")[-1]
                    hf = cls.methods.get(hn) or mod.functions.get(hn)
                    exact = None
                    if hf is not None:
                        ctx.examined.add(hn)
                        ht = text(hf)
                        if any(k_ in ht for k_ in ("isclose", "allclose", "abs(", "fabs(", "tol", "round(")):
                            exact = False
                        else:
                            rr = [x for x in stmts_of(hf) if isinstance(x, ast.Return)]
                            exact = True if (len(rr) == 1 and isinstance(rr[0].value, ast.Compare) and isinstance(rr[0].value.ops[0], ast.Eq)) else None
                    if exact is False:
                        bad["R1"] = bad["R1"] or (p, "the duplicate test %s compares the cost vectors with a tolerance: a distinct, mutually non-dominated cost vector closer than the tolerance to a member is rejected as 'already contained'" % text(g))
                        it_eq = e.val
                    elif exact:
                        it_eq = e.val
            elif e.kind == "stmt":
                s = e.node
                if isinstance(s, ast.Assign) and len(s.targets) == 1 and isinstance(s.targets[0], ast.Name) and is_const(s.value) \
                        and isinstance(const_value(s.value), int) and not isinstance(const_value(s.value), bool):
                    kvar_val[s.targets[0].id] = const_value(s.value)
                if isinstance(s, ast.AugAssign) and isinstance(s.target, ast.Name) and isinstance(s.op, ast.Add) and is_const(s.value) \
                        and s.target.id in kvar_val:
                    kvar_val[s.target.id] += const_value(s.value)
                sval = TT.expand(s.value, at=s) if isinstance(s, ast.Assign) and any(access_path(t) == content for t in s.targets) else None
                if sval is not None and isinstance(sval, ast.ListComp) \
                        and len(sval.generators) == 1 and access_path(sval.generators[0].iter) == content \
                        and len(sval.generators[0].ifs) == 1:
                    g = sval.generators[0]
                    cnd = g.ifs[0]
                    if isinstance(cnd, ast.Compare) and isinstance(cnd.ops[0], ast.IsNot) and access_path(sval.elt) == access_path(g.target) \
                            and {access_path(cnd.left), access_path(cnd.comparators[0])} == {access_path(g.target), member}:
                        it_deleted += 1
                        n_deleted += 1
                if isinstance(s, ast.Delete):
                    for t in s.targets:
                        if isinstance(t, ast.Subscript) and access_path(t.value) == content:
                            it_deleted += 1
                            idx = t.slice
                            okidx = False
                            if isinstance(idx, ast.BinOp) and isinstance(idx.op, ast.Sub) and access_path(idx.left) == index_var \
                                    and isinstance(idx.right, ast.Name) and kvar_val.get(idx.right.id) == n_deleted:
                                okidx = True
                            elif access_path(idx) == index_var and n_deleted == 0 and False:
                                okidx = True
                            if not okidx:
                                bad["R3"] = bad["R3"] or (p, "deletion at %s after %d earlier deletion(s): the index into the live list is not corrected by the number of members already removed, so a different member is deleted" % (text(idx), n_deleted), s)
                            n_deleted += 1
                for c in calls_in(s):
                    mc = method_call(c)
                    if mc and access_path(mc[0]) == selfn and mc[1] == "remove" and c.args and access_path(c.args[0]) == member:
                        it_deleted += 1
                        n_deleted += 1
                        bad["R3"] = bad["R3"] or (p, "self.remove(%s) is list.remove: it deletes the first member that is == to it; Individual equality compares design vectors, so with two members sharing a design vector (different costs) a non-dominated member is removed and the dominated one stays" % member, s)
                    if mc and access_path(mc[0]) == content:
                        if mc[1] == "append" and c.args and access_path(c.args[0]) == new:
                            inserted += 1
                        elif mc[1] == "remove" and c.args and access_path(c.args[0]) == member:
                            it_deleted += 1
                            n_deleted += 1
                            bad["R3"] = bad["R3"] or (p, "list.remove(%s) deletes the first member that is == to it; Individual equality compares design vectors, so with two members sharing a design vector (different costs) a non-dominated member is removed and the dominated one stays" % member, s)
                        elif mc[1] in ("pop", "remove", "clear", "insert", "extend"):
                            bad["R3"] = bad["R3"] or (p, "unexpected mutation of the content list: %s" % text(c), s)
            if in_loop and it_flag is not None and e.kind in ("stmt", "break", "return") and not rejected:
                if it_flag == old_wins or (it_flag == 0 and it_eq is True):
                    rejected = True
        if in_loop and not rejected and (it_flag == old_wins or (it_flag == 0 and it_eq is True)):
            rejected = True     # the path leaves the function from inside the scan with the verdict decided
        ret = p.node.value if (p.outcome == "return" and p.node is not None) else None
        retv = const_value(ret) if (ret is not None and is_const(ret)) else None
        if retv is True and inserted != 1:
            bad["R2"] = bad["R2"] or (p, "returns True although the newcomer was appended %d time(s)" % inserted)
        if retv is False and inserted != 0:
            bad["R2"] = bad["R2"] or (p, "returns False although the newcomer was appended")
        if retv not in (True, False):
            bad["R2"] = bad["R2"] or (p, "returns %s instead of the success flag" % (text(ret) if ret is not None else "nothing"))
        if rejected and inserted:
            bad["R1"] = bad["R1"] or (p, "the newcomer is inserted although a member dominates it or has the same cost vector (the archive keeps ONE representative of a cost vector)")
        if not rejected and inserted != 1:
            bad["R1"] = bad["R1"] or (p, "the newcomer is not inserted although no member dominates or equals it")
    ctx.extra["add_action_table"] = {k: sorted(v) for k, v in table.items()}
    ctx.sample({"Archive.add action table (verdict, equal?) -> action": ctx.extra["add_action_table"], "newcomer_wins_code": new_wins})
    msgs = {"R1": "per-member action table and insertion iff never rejected hold on all %d paths" % len(paths),
            "R2": "True <=> exactly one append of the newcomer; False <=> none",
            "R3": "each deletion removes the current member (index corrected by the running deletion count)"}
    for r in ("R1", "R2", "R3"):
        if bad[r]:
            node = bad[r][2] if len(bad[r]) > 2 else fn
            ctx.violated(r, C, where(mod, node), bad[r][1] + " (path [%s])" % bad[r][0].describe(7), key={"R1": "action-table", "R2": "success-flag", "R3": "deletion"}[r])
        else:
            ctx.holds(r, C, where(mod, fn), msgs[r], key={"R1": "action-table", "R2": "success-flag", "R3": "deletion"}[r])


def check_truncate(ctx, repo, cls):
    """abstract interpretation of the list values of `truncate` along every path.  A list is described by
    (order of the feature along it: ASC / DESC / ?, which members it holds: ALL, the `size` LARGEST, the `size`
    SMALLEST, or a recognised defect); sorting, reversing, slicing and renaming act on this description, so the rule
    does not depend on the order or the spelling of these steps."""
    mod = cls.module
    fn = cls.methods.get("truncate")
    if fn is None:
        raise AnalysisError("Archive.truncate not found")
    C = "Archive.truncate"
    ps = func_params(fn)
    selfn = ps[0]
    size = ps[1] if len(ps) > 1 else None
    getter = ps[2] if len(ps) > 2 else None
    content = selfn + "." + content_attr(cls)
    from ..terms import PathEnv as _PE
    npaths = 0
    bad = unknown = None
    FLIP = {"ASC": "DESC", "DESC": "ASC", "?": "?"}

    def key_state(kf):
        """True: the key is member.features[getter]; False: a recognised other key; None: not understood"""
        if isinstance(kf, ast.Name):
            for nd_ in ast.walk(fn):
                if isinstance(nd_, ast.FunctionDef) and nd_ is not fn and nd_.name == kf.id and len(nd_.args.args) == 1:
                    body_ = [x for x in nd_.body if not (isinstance(x, ast.Expr) and isinstance(x.value, ast.Constant))]
                    if len(body_) == 1 and isinstance(body_[0], ast.Return) and body_[0].value is not None:
                        kf = ast.Lambda(args=nd_.args, body=body_[0].value)
        if isinstance(kf, ast.Lambda) and len(kf.args.args) == 1:
            kb, a0 = text(kf.body), kf.args.args[0].arg
            if kb == "%s.features[%s]" % (a0, getter):
                return True
            if kb.startswith(a0 + "."):
                return False
            return None
        return False if kf is None else None

    def take(state, which):
        """first / last `size` members of a list in state (order, ALL)"""
        o, keep = state
        if keep != "ALL" or o == "?":
            return (o, "UNKNOWN")
        largest = (which == "first" and o == "DESC") or (which == "last" and o == "ASC")
        return (o, "LARGEST" if largest else "SMALLEST")

    for p in Enumerator().function_paths(fn):
        if p.outcome == "raise":
            continue
        npaths += 1
        larger = None
        for e in p.events:
            if e.kind == "guard" and "larger" in text(e.node):
                g = e.node
                if isinstance(g, ast.UnaryOp) and isinstance(g.op, ast.Not) and isinstance(g.operand, ast.Name):
                    larger = not e.val
                elif isinstance(g, ast.Name):
                    larger = e.val
        pe = _PE(fn, p.events)
        st = {content: ("?", "ALL")}
        defect = None
        rev_by_param = False

        def sort_state(call, src_state, i_):
            nonlocal defect, rev_by_param
            key = [k.value for k in call.keywords if k.arg == "key"]
            rev = [k.value for k in call.keywords if k.arg == "reverse"]
            ks = key_state(key[0] if key else None)
            if ks is False:
                defect = defect or "the members are not sorted by the chosen feature (%s)" % text(call)[:90]
            o = "ASC" if ks else "?"
            if rev and ks:
                if is_const(rev[0]):
                    o = "DESC" if const_value(rev[0]) else "ASC"
                elif access_path(rev[0]) and "larger" in access_path(rev[0]):
                    if larger is None:
                        rev_by_param = True
                        o = "DESC"          # read as: descending exactly when larger values are preferred
                    else:
                        o = "DESC" if larger else "ASC"
                else:
                    o = "?"
            return (o, src_state[1])

        for i_, e in enumerate(p.events):
            if e.kind != "stmt":
                continue
            s_ = e.node
            if isinstance(s_, ast.Assign) and len(s_.targets) == 1 and access_path(s_.targets[0]) is not None:
                t = access_path(s_.targets[0])
                v = s_.value
                if isinstance(v, ast.Call) and access_path(v.func) == "sorted" and v.args and access_path(v.args[0]) in st:
                    st[t] = sort_state(v, st[access_path(v.args[0])], i_)
                elif access_path(v) in st:
                    st[t] = st[access_path(v)]
                elif isinstance(v, ast.Call) and access_path(v.func) in ("list", "reversed", "tuple") and v.args:
                    inner, flip = v.args[0], access_path(v.func) == "reversed"
                    while isinstance(inner, ast.Call) and access_path(inner.func) in ("list", "reversed") and inner.args:
                        flip = flip != (access_path(inner.func) == "reversed")
                        inner = inner.args[0]
                    if access_path(inner) in st:
                        o, k = st[access_path(inner)]
                        st[t] = (FLIP[o] if flip else o, k)
                    else:
                        st.pop(t, None)
                elif isinstance(v, ast.Subscript) and isinstance(v.slice, ast.Slice) and access_path(v.value) in st:
                    src = st[access_path(v.value)]
                    sl = v.slice
                    lo = pe.expand_at(sl.lower, i_) if sl.lower is not None else None
                    hi = pe.expand_at(sl.upper, i_) if sl.upper is not None else None
                    step = sl.step
                    srcname = access_path(v.value)
                    len_minus = pe.expand_at(poly.parse("len(%s) - %s" % (srcname, size)), i_)
                    if lo is None and hi is None and step is not None and is_const(step) and const_value(step) == -1:
                        st[t] = (FLIP[src[0]], src[1])
                    elif lo is None and hi is None and step is None:
                        st[t] = src
                    elif step is not None:
                        st[t] = (src[0], "UNKNOWN")
                    elif lo is None and access_path(hi) == size:
                        st[t] = take(src, "first")
                    elif lo is None and isinstance(hi, ast.BinOp) and isinstance(hi.op, (ast.Add, ast.Sub)) and access_path(hi.left) == size and is_const(hi.right) and const_value(hi.right) != 0:
                        defect = defect or "the archive is cut to %s members instead of `%s`" % (text(hi), size)
                        st[t] = (src[0], "UNKNOWN")
                    elif hi is None and isinstance(lo, ast.UnaryOp) and isinstance(lo.op, ast.USub) and access_path(lo.operand) == size:
                        st[t] = take(src, "last")
                    elif hi is None and lo is not None and (poly.equal(lo, len_minus) or poly.equal(lo, poly.parse("len(%s) - %s" % (srcname, size)))):
                        defect = defect or ("the kept part is %s[%s:] with the lower bound len - %s: when `%s` exceeds the number of members the bound is negative and counts "
                                            "from the end, so only %s - len members are kept instead of all" % (srcname, text(sl.lower), size, size, size))
                        st[t] = take(src, "last")
                    elif hi is None and isinstance(lo, ast.Call) and access_path(lo.func) == "max" and len(lo.args) == 2 \
                            and any(is_const(a_) and const_value(a_) == 0 for a_ in lo.args) \
                            and any(poly.equal(a_, len_minus) or poly.equal(a_, poly.parse("len(%s) - %s" % (srcname, size))) for a_ in lo.args):
                        st[t] = take(src, "last")
                    else:
                        st[t] = (src[0], "UNKNOWN")
                else:
                    st.pop(t, None)
            elif isinstance(s_, ast.Expr) and isinstance(s_.value, ast.Call) and isinstance(s_.value.func, ast.Attribute) and s_.value.func.attr in ("append", "extend", "insert") \
                    and access_path(s_.value.func.value) in st:
                t = access_path(s_.value.func.value)
                if st[t][1] in ("LARGEST", "SMALLEST"):
                    defect = defect or ("after the cut to `%s` members, more members are put back into the kept part (%s): the archive can hold more than `%s` members"
                                        % (size, text(s_).strip()[:80], size))
                st[t] = (st[t][0], "UNKNOWN")
            elif isinstance(s_, ast.AugAssign) and isinstance(s_.op, ast.Add) and access_path(s_.target) in st:
                t = access_path(s_.target)
                if st[t][1] in ("LARGEST", "SMALLEST"):
                    defect = defect or ("after the cut to `%s` members, more members are added to the kept part (%s): the archive can hold more than `%s` members" % (size, text(s_).strip()[:80], size))
                st[t] = (st[t][0], "UNKNOWN")
            elif isinstance(s_, ast.Expr) and is_method_call(s_.value, "reverse") and access_path(s_.value.func.value) in st:
                t = access_path(s_.value.func.value)
                st[t] = (FLIP[st[t][0]], st[t][1])
            elif isinstance(s_, ast.Expr) and is_method_call(s_.value, "sort") and access_path(s_.value.func.value) in st:
                t = access_path(s_.value.func.value)
                st[t] = sort_state(s_.value, st[t], i_)
            elif isinstance(s_, ast.Delete):
                for tg in s_.targets:
                    if isinstance(tg, ast.Subscript) and isinstance(tg.slice, ast.Slice) and access_path(tg.value) in st:
                        t = access_path(tg.value)
                        lo = pe.expand_at(tg.slice.lower, i_) if tg.slice.lower is not None else None
                        if tg.slice.upper is None and tg.slice.step is None and access_path(lo) == size:
                            st[t] = take(st[t], "first")
                        else:
                            st[t] = (st[t][0], "UNKNOWN")
        final = st.get(content, ("?", "UNKNOWN"))
        want_largest = True if larger is None else larger
        if defect:
            bad = bad or (fn, defect)
        elif final[1] == "ALL":
            bad = bad or (fn, "the content list is left at its full length on the path [%s]" % p.describe(4))
        elif final[1] == "UNKNOWN":
            unknown = unknown or (fn, "the members kept on the path [%s] are not understood" % p.describe(4))
        elif rev_by_param:
            # DESC iff larger: LARGEST stands for "the preferred end"
            if final[1] != "LARGEST":
                bad = bad or (fn, "the unpreferred end of the sorted list is kept")
        elif want_largest and final[1] != "LARGEST":
            bad = bad or (fn, "with larger values preferred the members with the SMALLEST feature survive (path [%s])" % p.describe(4))
        elif not want_largest and final[1] != "SMALLEST":
            bad = bad or (fn, "with smaller values preferred the largest are kept (path [%s])" % p.describe(4))
    if bad:
        ctx.violated("R4", C, where(mod, bad[0]), bad[1])
    elif unknown:
        ctx.inconclusive("R4", C, where(mod, unknown[0]), unknown[1])
    else:
        ctx.holds("R4", C, where(mod, fn), "sorted by the feature, oriented by larger_preferred, `size` members of the preferred end kept (%d paths)" % npaths)


def check_ownership(ctx, repo, cls):
    mod = cls.module
    allowed = {"__init__", "add", "truncate", "remove"}
    offenders = []
    for name, fn in cls.methods.items():
        selfn = func_params(fn)[0] if func_params(fn) else "self"
        content = selfn + "." + content_attr(cls)
        for s in stmts_of(fn):
            hit = False
            for t in store_targets(s):
                p = access_path(t) or ""
                if p == content or p.startswith(content + "["):
                    hit = True
            if isinstance(s, (ast.Expr, ast.Assign, ast.Return)):
                for c in calls_in(s):
                    mc = method_call(c)
                    if mc and access_path(mc[0]) == content and mc[1] in ("append", "extend", "insert", "pop", "remove", "clear", "sort", "reverse"):
                        hit = True
            if hit and name not in allowed:
                offenders.append((fn, s, name))
    # other modules
    for m in repo.modules.values():
        for n in ast.walk(m.tree):
            if isinstance(n, ast.Attribute) and n.attr == content_attr(cls) and m is not mod:
                offenders.append((n, n, m.name + " (foreign module)"))
    if offenders:
        fn, s, name = offenders[0]
        ctx.violated("R5", "Archive.%s" % name, where(mod if not isinstance(fn, ast.Attribute) else repo.modules[name.split()[0]], s),
                     "the content list is mutated outside add/truncate/remove: %s - members can enter without the dominance test" % text(s).strip()[:80], key="ownership")
    else:
        ctx.holds("R5", "Archive", where(mod, cls.node), "only __init__/add/truncate/remove write the content list", key="ownership")
    # delegation
    for name in ("append", "extend", "__iadd__"):
        fn = cls.methods.get(name)
        if fn is None:
            continue
        selfn = func_params(fn)[0]
        deleg = [c for c in calls_in(fn) if access_path(c.func) in (selfn + ".add", selfn + ".append", selfn + ".extend", selfn + ".__iadd__")
                 and access_path(c.func) != selfn + "." + name]
        writes = any(method_call(c) and access_path(method_call(c)[0]) == selfn + "." + content_attr(cls) for c in calls_in(fn))
        ctx.check3(True if deleg else (False if writes else None), "R5", "Archive.%s" % name, where(mod, fn), "inserts through add() (dominance-tested)",
                   "members are put into the content list without the dominance test of add()", "insertion path not recognised", key="delegation")


def run(ctx):
    for rid, doc in (("R1", "action table per scanned member; inserted iff never rejected"), ("R2", "success flag <=> exactly one append"),
                     ("R3", "snapshot iteration; deletion removes the current member"), ("R4", "truncate keeps the largest feature values when larger is preferred"),
                     ("R5", "content list owned by add/truncate/remove")):
        ctx.rule(rid, doc)
    ctx.assume("global statements (exactly the non-dominated set, order independence) follow from R1-R3 and C01 by the usual invariant argument; they are not re-proved here")
    ctx.axiom("the comparator returns 0, 1 or 2 (decided by C01)")
    cls = ctx.repo.cls("Archive", "archive")
    check_add(ctx, ctx.repo, cls)
    check_truncate(ctx, ctx.repo, cls)
    check_ownership(ctx, ctx.repo, cls)
    # the members are mutually non-dominated *under the archive's comparator*: the comparator the archive is built with by
    # default (and the Pareto comparator handed to it by the swarm algorithms) must be the strict partial order of C01
    check_comparators(ctx, ctx.repo, cls)


def check_comparators(ctx, repo, cls):
    from . import c01
    from .c18 import SubCtx
    from ..loader import Repo
    ctx.rule("R6", "the comparators an archive is built with satisfy the comparator rules of C01")
    init = cls.methods.get("__init__")
    names = set()
    for n_ in ast.walk(init) if init is not None else ():
        if isinstance(n_, ast.Call) and access_path(n_.func) in ("EpsilonDominance", "ParetoDominance"):
            names.add(access_path(n_.func))
    names |= {"ParetoDominance"}
    light = Repo(repo.root, comp=False)
    for nm in sorted(names):
        if light.has_cls(nm):
            c01.analyse(SubCtx(ctx, "R6", prefix="archive comparator %s: " % nm), light, nm, nm == "EpsilonDominance")
