"""C18 - swarm: personal best never regresses, velocity clamped, leader set bounded.

R1  update_particle_best: with flag = compare(new, best) both best fields are
    replaced from the same particle unless the old best dominates the new
    position; neither is touched otherwise (complete table over flag 0/1/2).
R2  speed_constriction returns a value within +-(u-l)/2 (D-BOX facts through
    min/max); every velocity component written by the update_velocity
    implementations is its result, called with the bounds of the parameter of
    the same index in (value, upper, lower) order.
R3  the three update_position overrides: a coordinate beyond a bound is set to
    that bound and its velocity component multiplied by -1 (OMOPSO, PSOGA) or
    0.001 (SMPSO) on exactly those paths.
R4  every update_global_best ends, on every path, with
    leaders.truncate(<population size option>, ...) after its last insertion
    into the leaders; insertions go through Archive.add, whose action table
    (C04 rules) gives mutual non-dominance.
"""
import ast

from ..absint import Evaluator, Interp, fin, obj, Unsupported
from ..astutil import (text, access_path, calls_in, func_params, stmts_of, is_const, const_value, method_call, single_defs,
                       canon_text, canon, fold, store_targets)
from ..loader import where, AnalysisError
from ..paths import Enumerator
from ..terms import Terms, PathEnv, self_effects_of
from .. import poly
from . import c04


class BestClient:
    def __init__(self, particle):
        self.particle = particle
        self.orient = None

    def lookup(self, node, env, ev):
        t = text(node)
        if t == self.particle + ".costs_signed":
            return [obj("new_costs")]
        if t == self.particle + ".vector":
            return [obj("new_vector")]
        return None

    def assign_hook(self, stmt, env, ref, interp):
        if isinstance(stmt.value, ast.Call) and (access_path(stmt.value.func) or "").endswith(".compare") and len(stmt.value.args) == 2:
            a0, a1 = text(stmt.value.args[0]), text(stmt.value.args[1])
            if a0 == self.particle + ".costs_signed" and "best_cost" in a1:
                self.orient = 2      # flag 2 <=> old best dominates the new position
            elif a1 == self.particle + ".costs_signed" and "best_cost" in a0:
                self.orient = 1
            out = []
            for v in (0, 1, 2):
                e2 = dict(env)
                e2[access_path(stmt.targets[0])] = fin(v)
                e2["__flag__"] = fin(v)
                out.append((e2, ref))
            return out
        return None


def _ladder_cases(fn, vel, up, lo):
    """True / violation text / None for a body that only assigns, compares and does arithmetic on its three parameters"""
    from ..ivlinterp import Interp as _IvI, Unsupported as _Un
    from ..ivl import DomainError as _DE
    allowed = (ast.Return, ast.If, ast.IfExp, ast.Compare, ast.Name, ast.Load, ast.Store, ast.Assign, ast.AugAssign, ast.Lt, ast.LtE, ast.Gt, ast.GtE, ast.BinOp, ast.UnaryOp, ast.USub,
               ast.Add, ast.Sub, ast.Mult, ast.Div, ast.Constant, ast.Expr, ast.Pass, ast.Call, ast.BoolOp, ast.And, ast.Or, ast.Not)
    nodes = [n for st in fn.body for n in ast.walk(st)]
    if not all(isinstance(n, allowed) for n in nodes) or any(isinstance(n, ast.Call) and access_path(n.func) not in ("min", "max", "abs", "float") for n in nodes):
        return None
    # every comparison has the velocity (or a local) on one side: nothing but the position of the velocity is tested
    for u_, l_ in ((3.0, 1.0), (2.0, 2.0), (-1.0, -5.0)):
        d_ = (u_ - l_) / 2.0
        for v_ in sorted({-d_ - 4.0, -d_, -d_ / 2.0, 0.0, d_ / 2.0, d_, d_ + 4.0}):
            try:
                it = _IvI()
                it.concrete_lib = True
                static = any(isinstance(d, ast.Name) and d.id == "staticmethod" for d in fn.decorator_list)
                ps = [a.arg for a in fn.args.args]
                vals = {vel: v_, up: u_, lo: l_}
                args = [vals.get(p_) for p_ in ps] if static else [None] + [vals.get(p_) for p_ in ps[1:]]
                r_ = it.call_function(fn, args)
            except (_Un, _DE, TypeError, IndexError, KeyError):
                return None
            want = min(max(v_, -d_), d_)
            if not isinstance(r_, (int, float)):
                return None
            if r_ != want:
                return "with bounds (%g, %g) the maximum speed is %g; a velocity of %g comes back as %r, the clamped value is %g" % (l_, u_, d_, v_, r_, want)
    return True


def _inline_scan_with_marker(fn, part):
    """the dominance test written out in place: a scan over zip(new signed costs, stored best costs) that runs over the WHOLE
    lists treats the trailing constraint marker as one more objective, looked at last.  The comparator of the property decides
    on the marker first: a feasible best that is worse in one objective still dominates an infeasible new position.  A scan
    that has not compared the markers before it compares objectives cannot give that answer."""
    T = Terms(fn)
    for lp in [n for n in ast.walk(fn) if isinstance(n, ast.For) and isinstance(n.iter, ast.Call) and access_path(n.iter.func) == "zip" and len(n.iter.args) == 2]:
        srcs = [text(T.expand(a, at=lp)) for a in lp.iter.args]
        roles = set()
        for t_ in srcs:
            if t_ == "%s.costs_signed" % part:
                roles.add("new")
            elif t_ == "%s.features['best_cost']" % part:
                roles.add("best")
        if roles != {"new", "best"}:
            continue
        tg = {n.id for n in ast.walk(lp.target) if isinstance(n, ast.Name)}
        cmps = [c for c in ast.walk(lp) if isinstance(c, ast.Compare) and {n.id for n in ast.walk(c) if isinstance(n, ast.Name)} <= tg and len(tg) == 2]
        marker_first = [c for c in ast.walk(fn) if isinstance(c, ast.Compare) and getattr(c, "lineno", 0) < lp.lineno and "[-1]" in text(c)
                        and ("costs_signed" in text(c) or "best_cost" in text(c))]
        if cmps and not marker_first:
            return lp, ("whether the old best dominates the new position is decided by a scan over zip(%s, %s) - the whole lists, so the trailing constraint marker takes part like one "
                        "more objective and is looked at last.  The dominance of the property decides on the marker FIRST: a feasible personal best (marker 0) that is worse in one "
                        "objective still dominates an infeasible new position (marker 1); this scan stops at that objective and replaces the best by a position it dominates"
                        % (srcs[0], srcs[1]))
    return None


def r1_best(ctx, repo):
    cls = repo.cls("SwarmAlgorithm", "algorithm_swarm")
    mod = cls.module
    for c in [cls] + repo.subclasses("SwarmAlgorithm"):
        fn = c.methods.get("update_particle_best")
        if fn is None:
            continue
        C = "%s.update_particle_best" % c.name
        loops = [s for s in fn.body if isinstance(s, ast.For) and isinstance(s.target, ast.Name)]
        if len(loops) != 1:
            ctx.inconclusive("R1", C, where(c.module, fn), "particle loop not found")
            continue
        part = loops[0].target.id
        client = BestClient(part)
        try:
            outs = Interp(Evaluator(hooks=client), client).run(loops[0].body, {}, None)
        except Unsupported as e:
            inl = _inline_scan_with_marker(fn, part)
            if inl:
                ctx.violated("R1", C, where(c.module, inl[0]), inl[1])
                continue
            ctx.inconclusive("R1", C, where(c.module, fn), "outside the analysable fragment: %s" % e)
            continue
        if client.orient is None:
            ctx.inconclusive("R1", C, where(c.module, fn), "comparator call compare(new costs, best cost) not recognised")
            continue
        table = {}
        bad = None
        kc, kv = part + ".features['best_cost']", part + ".features['best_vector']"
        for o in outs:
            flag = o.env.get("__flag__")
            flag = flag[1] if flag else None
            upd = (o.env.get(kc), o.env.get(kv))
            table[str(flag)] = [str(upd[0]), str(upd[1])]
            keep = flag == client.orient
            if keep and (upd[0] is not None or upd[1] is not None):
                bad = bad or (flag, "the personal best is replaced although it dominates the new position")
            if not keep:
                if upd == (None, None):
                    bad = bad or (flag, "the personal best is kept although it does not dominate the new position (verdict %s)" % flag)
                elif upd != (obj("new_costs"), obj("new_vector")):
                    bad = bad or (flag, "only one of best_cost / best_vector is replaced, or not from the same particle: %s" % (upd,))
        ctx.extra.setdefault("best_table", {})[C] = table
        if bad:
            ctx.violated("R1", C, where(c.module, fn), "comparator verdict %s: %s" % bad)
        else:
            ctx.holds("R1", C, where(c.module, fn), "verdict table %s: replaced (both fields, same particle) unless the old best dominates" % table)


def r2_velocity(ctx, repo):
    cls = repo.cls("SwarmAlgorithm", "algorithm_swarm")
    mod = cls.module
    fn = cls.methods.get("speed_constriction")
    if fn is None:
        raise AnalysisError("SwarmAlgorithm.speed_constriction not found")
    C = "SwarmAlgorithm.speed_constriction"
    ps = func_params(fn)
    # parameter roles by name
    vel = ps[0]
    up = [p for p in ps if p.lower().startswith("u")]
    lo = [p for p in ps if p.lower().startswith("l")]
    if not up or not lo:
        ctx.inconclusive("R2", C, where(mod, fn), "bound parameters not recognised: %s" % ps, key="clamp")
        return None
    up, lo = up[0], lo[0]
    T = Terms(fn)
    if len(T.returns) != 1 or T.returns[0][1] is None:
        ctx.inconclusive("R2", C, where(mod, fn), "single returned value not found", key="clamp")
        return (vel, up, lo)
    rt = T.returns[0][1]
    H = poly.canon_key(poly.parse("(%s - %s) / 2" % (up, lo)))
    NH = poly.canon_key(poly.parse("-(%s - %s) / 2" % (up, lo)))
    leaves = []

    def facts(e):
        """(upper bounds, lower bounds) of a min/max nest, as canonical keys; None outside the fragment"""
        if isinstance(e, ast.Call) and access_path(e.func) in ("min", "max") and len(e.args) == 2 and not e.keywords:
            fa, fb = facts(e.args[0]), facts(e.args[1])
            if fa is None or fb is None:
                return None
            if access_path(e.func) == "min":
                return fa[0] | fb[0], fa[1] & fb[1]
            return fa[0] & fb[0], fa[1] | fb[1]
        if access_path(e) == vel:
            return set(), set()
        if any(isinstance(n, ast.Name) and n.id == vel for n in ast.walk(e)):
            return None
        k = poly.canon_key(e)
        leaves.append((k, e))
        le, ge = {k}, {k}
        if k == H:
            ge.add(NH)      # (u - l)/2 >= -(u - l)/2 given l <= u
        if k == NH:
            le.add(H)
        return le, ge
    f = facts(rt)
    if f is None:
        ctx.inconclusive("R2", C, where(mod, fn), "returned value %s is not a min/max nest over the velocity" % text(rt)[:120], key="clamp")
    elif H in f[0] and NH in f[1]:
        ctx.holds("R2", C, where(mod, fn), "returned value %s proved within +-(%s - %s)/2" % (text(rt), up, lo), key="clamp")
    else:
        odd = [text(e) for k, e in leaves if k not in (H, NH)]
        if odd:
            ctx.violated("R2", C, where(mod, T.returns[0][0]), "the maximum speed is %s, expected (upper - lower) / 2" % odd[0], key="clamp")
        else:
            # not a min/max nest.  A ladder of comparisons of the velocity with quantities computed from the two bounds depends
            # only on where the velocity lies relative to -(u-l)/2 and +(u-l)/2: those cases are run through the body
            lad = _ladder_cases(fn, vel, up, lo)
            if lad is None and isinstance(rt, ast.Call) and access_path(rt.func) in ("min", "max"):
                lad = "the returned velocity %s is not proved within +-(upper-lower)/2" % text(rt)      # a pure min/max nest that lacks a bound
            if lad is True:
                ctx.holds("R2", C, where(mod, fn), "a ladder of comparisons: in every position of the velocity relative to -+(%s - %s)/2 the result is the velocity clamped to that range" % (up, lo), key="clamp")
            elif lad is None:
                ctx.inconclusive("R2", C, where(mod, T.returns[0][0]), "the returned velocity %s is neither a min/max nest nor a comparison ladder over the bounds" % text(rt), key="clamp")
            else:
                ctx.violated("R2", C, where(mod, T.returns[0][0]), lad, key="clamp")
    return (vel, up, lo)


def r2_sites(ctx, repo, roles):
    n = 0
    for c in [repo.cls("SwarmAlgorithm", "algorithm_swarm")] + repo.subclasses("SwarmAlgorithm"):
        fn = c.methods.get("update_velocity")
        if fn is None:
            continue
        n += 1
        C = "%s.update_velocity" % c.name
        defs = single_defs(fn)
        TV = Terms(fn, self_effects=self_effects_of(repo, c))
        writes = [s for s in stmts_of(fn) if isinstance(s, (ast.Assign, ast.AugAssign)) and any(
            isinstance(t, ast.Subscript) and "features['velocity']" in text(TV.expand(t.value, at=s)) for t in store_targets(s))]
        if not writes:
            ctx.violated("R2", C, where(c.module, fn), "no velocity component is written", key="component-clamped")
            continue
        bad = None
        for s in writes:
            t = store_targets(s)[0]
            idx = access_path(t.slice)
            v = s.value
            if isinstance(s, ast.AugAssign) or not (isinstance(v, ast.Call) and (access_path(v.func) or "").endswith("speed_constriction") and len(v.args) == 3):
                bad = bad or (s, "velocity component %s is written without passing through speed_constriction" % text(t))
                continue
            u_arg, l_arg = canon_text(v.args[1], defs), canon_text(v.args[2], defs)
            want_u = "parameters[%s]['bounds'][1]" % idx
            want_l = "parameters[%s]['bounds'][0]" % idx
            # argument order follows the callee's parameter order (value, upper, lower)
            order = [roles[0], roles[1], roles[2]] if roles else None
            callee = repo.method("SwarmAlgorithm", "speed_constriction")
            cps = func_params(callee)
            ui, li = cps.index(roles[1]), cps.index(roles[2])
            u_arg, l_arg = text(TV.expand(v.args[ui], at=s)), text(TV.expand(v.args[li], at=s))
            if not u_arg.endswith(want_u) or not l_arg.endswith(want_l):
                if u_arg.endswith(want_l) and l_arg.endswith(want_u):
                    bad = bad or (s, "upper and lower bound are swapped in the call: the clamp interval becomes empty/inverted")
                elif "['bounds']" in u_arg and "['bounds']" in l_arg:
                    bad = bad or (s, "component %s is clamped with the bounds of another parameter (%s, %s)" % (idx, u_arg, l_arg))
                else:
                    bad = bad or (s, "clamp bounds (%s, %s) are not the bounds of parameter %s" % (u_arg, l_arg, idx))
        if bad:
            ctx.violated("R2", C, where(c.module, bad[0]), bad[1], key="component-clamped")
        else:
            ctx.holds("R2", C, where(c.module, fn), "every velocity component = speed_constriction(v, bounds[i][1], bounds[i][0]) (%d write site)" % len(writes), key="component-clamped")
    ctx.count("update_velocity_implementations", n)
    if n < 2:
        raise AnalysisError("expected 2 update_velocity implementations, found %d" % n)


FACTORS = {"OMOPSO": -1, "PSOGA": -1, "SMPSO": 0.001}


def r3_position(ctx, repo):
    n = 0
    for c in repo.subclasses("SwarmAlgorithm"):
        fn = c.methods.get("update_position")
        if fn is None:
            continue
        n += 1
        C = "%s.update_position" % c.name
        want_factor = FACTORS.get(c.name)
        # innermost coordinate loop
        loops = [s for s in stmts_of(fn) if isinstance(s, ast.For)]
        inner = [l for l in loops if not any(isinstance(x, ast.For) for x in stmts_of(l) if x is not l)]
        if len(inner) != 1:
            ctx.inconclusive("R3", C, where(c.module, fn), "coordinate loop not found")
            continue
        lp = inner[0]
        tn = [x.id for x in ast.walk(lp.target) if isinstance(x, ast.Name)]
        fake = ast.FunctionDef(name="b", args=fn.args, body=lp.body, decorator_list=[], returns=None, type_comment=None, lineno=lp.lineno, col_offset=0)
        bad = None
        unknown = None
        npaths = 0
        for p in Enumerator(loop_counts=(0, 1)).function_paths(fake):
            npaths += 1
            hit = {}     # which bound tests were taken true
            sets = []
            scales = []
            pe = PathEnv(fn, p.events)
            for k_, e in enumerate(p.events):
                if e.kind == "guard" and isinstance(e.node, ast.Compare) and len(e.node.ops) == 1:
                    l, r = text(pe.expand_at(e.node.left, k_)), text(pe.expand_at(e.node.comparators[0], k_))
                    op = type(e.node.ops[0])
                    val = e.val
                    if ".vector[" in r and ".vector[" not in l:
                        l, r = r, l
                        op = {ast.Gt: ast.Lt, ast.Lt: ast.Gt, ast.GtE: ast.LtE, ast.LtE: ast.GtE}.get(op, op)
                    if op in (ast.LtE, ast.Lt) and "['bounds'][1]" in r or op in (ast.GtE, ast.Gt) and "['bounds'][0]" in r:
                        # x <= upper  is  not (x > upper)
                        op = {ast.LtE: ast.Gt, ast.Lt: ast.GtE, ast.GtE: ast.Lt, ast.Gt: ast.LtE}[op]
                        val = not val
                    if ".vector[" in l and "['bounds'][1]" in r and op in (ast.Gt, ast.GtE):
                        hit["upper"] = val
                    elif ".vector[" in l and "['bounds'][0]" in r and op in (ast.Lt, ast.LtE):
                        hit["lower"] = val
                    elif ".vector[" in l and "['bounds']" in r:
                        bad = bad or (e.node, "bound test %s compares against the wrong bound or in the wrong direction" % text(e.node))
                elif e.kind == "stmt":
                    s = e.node
                    if isinstance(s, ast.Assign):
                        tt, vt = text(pe.expand_at(s.targets[0], k_)), text(pe.expand_at(s.value, k_))
                        if ".vector[" in tt and "['bounds']" in vt:
                            sets.append("upper" if vt.endswith("['bounds'][1]") else "lower")
                    if isinstance(s, ast.AugAssign) and "features['velocity']" in text(pe.expand_at(s.target, k_)) and isinstance(s.op, ast.Mult):
                        try:
                            scales.append(fold(s.value))
                        except ValueError:
                            scales.append(None)
            violated = [k for k, v in hit.items() if v]
            if not hit:
                # no comparison with a bound on this path: how is the stored coordinate computed?
                recon = None
                stored_names = {e.node.value.id for e in p.events if e.kind == "stmt" and isinstance(e.node, ast.Assign) and isinstance(e.node.value, ast.Name)
                                and ".vector[" in text(e.node.targets[0])}
                for k_, e in enumerate(p.events):
                    if e.kind == "stmt" and isinstance(e.node, (ast.Assign, ast.AugAssign)):
                        s = e.node
                        tgt = s.targets[0] if isinstance(s, ast.Assign) else s.target
                        if ".vector[" not in text(pe.expand_at(tgt, k_)) and not (isinstance(tgt, ast.Name) and tgt.id in stored_names):
                            continue
                        v = pe.expand_at(s.value, k_)
                        if isinstance(s, ast.AugAssign) and isinstance(s.op, ast.Sub) or (isinstance(v, ast.BinOp) and isinstance(v.op, ast.Sub)):
                            sub = v if isinstance(s, ast.AugAssign) else v.right
                            if any(isinstance(n_, ast.BinOp) and isinstance(n_.op, ast.Sub) and "['bounds']" in text(n_.right) for n_ in ast.walk(sub)):
                                recon = (s, text(sub))
                if recon is not None:
                    bad = bad or (recon[0], "an escaping coordinate is corrected by subtracting its overshoot (%s) instead of being set to the violated bound: in floating point "
                                            "x - (x - bound) is not always bound, so the particle can end beside or outside the box" % recon[1][:90])
                else:
                    unknown = unknown or (lp, "no comparison with the bounds on the path [%s]: the correction of an escaping coordinate is not recognised" % p.describe(4))
                continue
            if "upper" not in hit or ("lower" not in hit and not hit.get("upper")):
                bad = bad or (lp, "a coordinate is not tested against %s bound on the path [%s]" % ("its upper" if "upper" not in hit else "its lower", p.describe(4)))
            if sorted(sets) != sorted(violated):
                bad = bad or (lp, "violated bounds %s but the coordinate is reset to %s" % (violated, sets))
            if len(scales) != len(violated):
                bad = bad or (lp, "velocity component scaled %d time(s) for %d violated bound(s)" % (len(scales), len(violated)))
            for f in scales:
                if want_factor is not None and f != want_factor:
                    bad = bad or (lp, "velocity component is multiplied by %r, expected %r for %s" % (f, want_factor, c.name))
        if bad:
            ctx.violated("R3", C, where(c.module, bad[0]), bad[1])
        elif unknown:
            ctx.inconclusive("R3", C, where(c.module, unknown[0]), unknown[1])
        else:
            ctx.holds("R3", C, where(c.module, fn), "out-of-box coordinate -> violated bound, velocity component x %r on exactly those paths (%d body paths)" % (want_factor, npaths))
    ctx.count("update_position_overrides", n)
    if n < 3:
        raise AnalysisError("expected 3 update_position overrides, found %d" % n)


_CA = ["_contents"]


def r4_leaders(ctx, repo):
    n = 0
    try:
        _CA[0] = c04.content_attr(repo.cls("Archive", "archive"))
    except AnalysisError:
        pass
    for c in repo.subclasses("SwarmAlgorithm"):
        fn = c.methods.get("update_global_best")
        if fn is None:
            continue
        n += 1
        C = "%s.update_global_best" % c.name
        selfn = func_params(fn)[0]
        L = selfn + ".leaders"
        bad = None
        npaths = 0
        for p in Enumerator(loop_counts=(0, 1, 2)).function_paths(fn):
            if p.outcome == "raise":
                continue
            npaths += 1
            last_ins, last_trunc, trunc_call = -1, -1, None
            for i, e in enumerate(p.events):
                if e.kind != "stmt":
                    continue
                s = e.node
                if isinstance(s, ast.AugAssign) and access_path(s.target) == L:
                    last_ins = i
                for cl in calls_in(s):
                    mc = method_call(cl)
                    if mc and access_path(mc[0]) == L:
                        if mc[1] in ("add", "append", "extend"):
                            last_ins = i
                        elif mc[1] == "truncate":
                            last_trunc, trunc_call = i, cl
                        elif mc[1] in ("remove",):
                            pass
                for t in store_targets(s):
                    tp = access_path(t) or ""
                    if tp == L + "." + _CA[0] or tp.startswith(L + "." + _CA[0]):
                        bad = bad or (s, "the leader list is written directly, bypassing Archive.add")
            if last_trunc < last_ins or trunc_call is None:
                bad = bad or (fn, "on the path [%s] the leaders are not truncated after the last insertion: the leader set can exceed the population size" % p.describe(4))
            elif trunc_call is not None:
                a0 = trunc_call.args[0] if trunc_call.args else None
                if a0 is None or text(a0) != selfn + ".options['max_population_size']":
                    if a0 is not None and access_path(a0) and access_path(a0).startswith(selfn + ".") and "options" not in text(a0):
                        bad = bad or (trunc_call, "the leaders are truncated to %s, an attribute set when the algorithm was constructed, not to the population size option as it is when "
                                      "the swarm runs: with a smaller configured swarm the leader archive exceeds the population size" % text(a0))
                    else:
                        bad = bad or (trunc_call, "the leaders are truncated to %s, not to the population size option" % (text(a0) if a0 is not None else "nothing"))
                lp = [k.value for k in trunc_call.keywords if k.arg == "larger_preferred"] + list(trunc_call.args[2:3])
                if lp and is_const(lp[0]) and const_value(lp[0]) is False:
                    bad = bad or (trunc_call, "leaders with the SMALLEST crowding distance are kept")
        if bad:
            ctx.violated("R4", C, where(c.module, bad[0]), bad[1], key="truncate-last")
        else:
            ctx.holds("R4", C, where(c.module, fn), "leaders.truncate(options['max_population_size'], ...) follows the last insertion on all %d paths" % npaths, key="truncate-last")
    ctx.count("update_global_best_implementations", n)
    if n < 3:
        raise AnalysisError("expected 3 update_global_best implementations, found %d" % n)
    # the leaders are Archive objects; their add() must satisfy the C04 action table
    arch = repo.cls("Archive", "archive")
    sub = SubCtx(ctx, "R4")
    c04.check_add(sub, repo, arch)
    c04.check_truncate(sub, repo, arch)


class SubCtx:
    """forwards the archive rules of C04 into this property's report under rule R4"""

    def __init__(self, ctx, rule, prefix="leader archive: "):
        self.ctx, self.rid, self.prefix = ctx, rule, prefix
        self.extra = ctx.extra

    def _k(self, rule, key):
        return "archive-%s-%s" % (rule, key or "")

    def holds(self, rule, construct, where="", detail="", key=""):
        self.ctx.holds(self.rid, construct, where, detail, self._k(rule, key))

    def violated(self, rule, construct, where="", detail="", key="", facts=None):
        self.ctx.violated(self.rid, construct, where, self.prefix + detail, self._k(rule, key), facts)

    def inconclusive(self, rule, construct, where="", detail="", key=""):
        self.ctx.inconclusive(self.rid, construct, where, detail, self._k(rule, key))

    def check(self, ok, rule, construct, where="", detail="", key="", facts=None):
        return (self.holds if ok else self.violated)(rule, construct, where, detail, key)

    def check3(self, state, rule, construct, where="", ok_detail="", bad_detail="", unknown_detail="", key="", facts=None):
        if state is True:
            self.holds(rule, construct, where, ok_detail, key)
        elif state is False:
            self.violated(rule, construct, where, bad_detail, key, facts)
        else:
            self.inconclusive(rule, construct, where, unknown_detail or "shape not recognised", key)

    def count(self, *a, **k):
        self.ctx.count(*a, **k)

    def sample(self, s):
        pass

    # a whole rule family of another property run under one rule of this one: its own rule table, axioms and
    # assumptions are documented where it is at home
    def rule(self, *a, **k):
        pass

    def axiom(self, *a, **k):
        pass

    def assume(self, *a, **k):
        pass

    @property
    def repo(self):
        return self.ctx.repo

    @property
    def tier(self):
        return self.ctx.tier

    @property
    def examined(self):
        return self.ctx.examined


def run(ctx):
    for rid, doc in (("R1", "personal best replaced (both fields) unless the old best dominates"), ("R2", "velocity clamp +-(u-l)/2 and its call sites"),
                     ("R3", "position reset to the violated bound, velocity component x(-1 | 0.001)"), ("R4", "leaders truncated to the population size after every insertion; archive action table")):
        ctx.rule(rid, doc)
    ctx.assume("lower bound <= upper bound for every parameter")
    r1_best(ctx, ctx.repo)
    roles = r2_velocity(ctx, ctx.repo)
    if roles:
        r2_sites(ctx, ctx.repo, roles)
    r3_position(ctx, ctx.repo)
    r4_leaders(ctx, ctx.repo)
