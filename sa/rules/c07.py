"""C07 - parallel evaluation is equivalent to serial evaluation under every schedule (partial).

R1  evaluate_parallel submits exactly one Job.evaluate per element of the batch
    (no filter, no duplication) through joblib with shared memory.
R2  race rule over the worker closure (Job.evaluate and its callees with the
    default surrogate and store): an attribute of a *shared* object (the Job,
    the surrogate, the data store, a class attribute) that is rebound inside
    the closure and also read inside it is a race on per-design data, unless
    both accesses sit in one `with <lock>` block; counters touched only by
    `x += 1` and atomic container appends are listed, not alarmed; a class
    counter may be read only into an attribute of an object constructed
    inside the worker.
R3  thread-safe store: conn() creates its connection in the call and caches
    nothing; sync_individual never swallows a contention error (C11 rules,
    re-run here).
"""
import ast

from ..astutil import text, access_path, calls_in, func_params, stmts_of, store_targets, walk_no_nested
from ..loader import where, AnalysisError
from . import c11
from .c18 import SubCtx


def r1_dispatch(ctx, repo):
    cls = repo.cls("Evaluator", "operators")
    mod = cls.module
    fn = cls.methods.get("evaluate_parallel")
    if fn is None:
        raise AnalysisError("Evaluator.evaluate_parallel not found")
    C = "Evaluator.evaluate_parallel"
    selfn, batch = func_params(fn)[:2]
    # the dispatch call as a term: locals holding the pool (`workers = Parallel(..)`) or the task factory
    # (`run = delayed(self.job.evaluate)`) are looked through
    from ..terms import Terms as _T
    TT = _T(fn)
    outer = []
    for s_ in stmts_of(fn):
        if isinstance(s_, (ast.If, ast.For, ast.While, ast.Try, ast.With)):
            continue
        for c in calls_in(s_):
            cx = TT.expand(c, at=s_)
            if isinstance(cx, ast.Call) and isinstance(cx.func, ast.Call) and access_path(cx.func.func) in ("Parallel", "joblib.Parallel"):
                outer.append(cx)
    if len(outer) != 1:
        ctx.inconclusive("R1", C, where(mod, fn), "joblib Parallel(...)(generator) call not found")
        return
    call = outer[0]
    par = call.func
    kw = {k.arg: k.value for k in par.keywords}
    shared = ("require" in kw and text(kw["require"]) in ("'sharedmem'", '"sharedmem"')) or ("backend" in kw and "threading" in text(kw["backend"]))
    if not shared:
        ctx.violated("R1", C, where(mod, par), "the workers do not share memory (no require='sharedmem' / threading backend): results written by a worker are lost in the parent process")
        return
    gen = call.args[0] if call.args else None
    ok = False
    detail = "dispatch generator not recognised"
    if isinstance(gen, (ast.GeneratorExp, ast.ListComp)) and len(gen.generators) == 1:
        g = gen.generators[0]
        e = gen.elt
        if access_path(g.iter) != batch:
            detail = "the dispatch iterates %s, not the batch" % text(g.iter)
        elif g.ifs:
            detail = "the dispatch filters the batch (%s): some designs are never evaluated" % text(g.ifs[0])
        elif isinstance(e, ast.Call) and isinstance(e.func, ast.Call) and access_path(e.func.func) == "delayed" \
                and access_path(e.func.args[0]) == selfn + ".job.evaluate" and len(e.args) == 1 and access_path(e.args[0]) == access_path(g.target):
            if e.keywords:
                # the worker is started in another mode than the serial path uses (e.g. its store write switched off)
                ok = None
                detail = "a task is %s: the worker runs Job.evaluate with other options than the serial path, not recognised" % text(e)
            else:
                ok = True
        else:
            detail = "a task is %s, expected delayed(self.job.evaluate)(<the design>)" % text(e)
    ctx.check3(True if ok else (None if detail.endswith("not recognised") else False), "R1", C, where(mod, call), "one Job.evaluate task per element of the batch, shared memory", detail, detail)
    # completion: the call must return only when every task is done; results consumed lazily / out of order
    # while later statements already act on the designs are a recognised contradiction
    ra = kw.get("return_as")
    if ra is not None:
        rat = text(ra)
        later = [s_ for s_ in stmts_of(fn) if getattr(s_, "lineno", 0) > call.lineno and isinstance(s_, (ast.For, ast.Expr, ast.Assign))]
        acts = [s_ for s_ in later if any((access_path(c_.func) or "").endswith((".sync_individual", ".sync_all", ".append")) for c_ in calls_in(s_))]
        if "unordered" in rat and acts:
            ctx.violated("R1", C, where(mod, acts[0]), "the tasks' results are consumed out of order (return_as=%s) while %s acts on the designs in submission order: "
                         "the k-th completion triggers work on the k-th submitted design, which may still be running, so its stored row is not its final data" % (rat, text(acts[0]).split(chr(10))[0].strip()), key="completion")
        elif "generator" in rat:
            ctx.inconclusive("R1", C, where(mod, par), "the tasks' results are consumed lazily (return_as=%s): completion before the following statements is not established" % rat, key="completion")
    else:
        ctx.holds("R1", C, where(mod, par), "the Parallel call returns after all tasks are done (list mode)", key="completion")
    # the dispatcher chooses the parallel path only by the process-count option
    fn2 = cls.methods.get("evaluate")
    if fn2 is not None:
        t = text(fn2)
        okb = "evaluate_parallel(individuals)" in t.replace(" ", "").replace("self.", "") and "evaluate_serial(individuals)" in t.replace(" ", "").replace("self.", "")
        ctx.check3(True if okb else None, "R1", "Evaluator.evaluate", where(mod, fn2), "both paths receive the same batch", unknown_detail="dispatcher shape not recognised", key="same-batch")


def closure(repo):
    """functions that run inside a worker: (label, module, FunctionDef, kind)
    kind: 'shared-self' (self is shared between workers) | 'task-self' (self is the task's design) | 'fresh-self' | 'static'"""
    out = []
    job = repo.cls("Job", "job")
    out.append(("Job.evaluate", job.module, job.methods["evaluate"], "shared-self"))
    se = repo.cls("SurrogateModelEval", "surrogate")
    out.append(("SurrogateModelEval.evaluate", se.module, se.methods["evaluate"], "shared-self"))
    ds = repo.cls("SqliteDataStore", "datastore")
    # conn() is decided path-sensitively by R3 (its non-thread-safe branch legitimately caches a connection)
    out.append(("SqliteDataStore.sync_individual", ds.module, ds.methods["sync_individual"], "shared-self"))
    ind = repo.cls("Individual", "individual")
    out.append(("Individual.calc_signed_costs", ind.module, ind.methods["calc_signed_costs"], "task-self"))
    out.append(("Individual.to_dict", ind.module, ind.methods["to_dict"], "task-self"))
    out.append(("Individual.__init__", ind.module, ind.methods["__init__"], "fresh-self"))
    vn = repo.cls("VectorAndNumbers", "utils")
    for m in ("gen_vector", "gen_number"):
        out.append(("VectorAndNumbers.%s" % m, vn.module, vn.methods[m], "static"))
    return out


def enclosing_with(fn):
    """{id(stmt): tuple of `with` context texts enclosing it}"""
    out = {}

    def rec(stmts, stack):
        for s in stmts:
            out[id(s)] = stack
            if isinstance(s, (ast.With, ast.AsyncWith)):
                ctxs = tuple(text(i.context_expr) for i in s.items)
                rec(s.body, stack + ctxs)
            else:
                for f in ("body", "orelse", "finalbody"):
                    if hasattr(s, f) and not isinstance(s, (ast.FunctionDef, ast.ClassDef)):
                        rec(getattr(s, f), stack)
                if isinstance(s, ast.Try):
                    for h in s.handlers:
                        rec(h.body, stack)
    rec(fn.body, ())
    return out


def r2_races(ctx, repo):
    cl = closure(repo)
    ctx.count("closure_functions", len(cl))
    listed = []
    # shared objects by (class): every shared-self function of one class shares the same `self`
    by_obj = {}
    for label, mod, fn, kind in cl:
        by_obj.setdefault(label.split(".")[0], []).append((label, mod, fn, kind))
    for obj, fns in by_obj.items():
        stores = {}   # attr path (relative to self) -> [(label, stmt, is_aug, withs)]
        loads = {}
        for label, mod, fn, kind in fns:
            if kind != "shared-self":
                continue
            selfn = func_params(fn)[0]
            withs = enclosing_with(fn)
            for s in stmts_of(fn):
                tg = store_targets(s) if isinstance(s, (ast.Assign, ast.AugAssign, ast.AnnAssign)) else []
                for t in tg:
                    p = access_path(t) or ""
                    if p.startswith(selfn + ".") and not p.startswith(selfn + ".problem.") or p.startswith(selfn + ".problem.") and isinstance(s, (ast.Assign, ast.AugAssign)):
                        rel = p[len(selfn) + 1:]
                        stores.setdefault(rel, []).append((label, mod, s, isinstance(s, ast.AugAssign), withs.get(id(s), ())))
            for s in stmts_of(fn):
                # loads: every Attribute chain rooted at self in Load context, except the target of an AugAssign
                skip = set()
                if isinstance(s, ast.AugAssign):
                    skip.add(id(s.target))
                src_nodes = [s] if not isinstance(s, (ast.If, ast.For, ast.While, ast.Try, ast.With)) else \
                    ([s.test] if isinstance(s, (ast.If, ast.While)) else ([s.iter] if isinstance(s, ast.For) else []))
                for root in src_nodes:
                    for n in walk_no_nested(root):
                        if isinstance(n, ast.Attribute) and isinstance(n.ctx, ast.Load) and id(n) not in skip:
                            p = access_path(n) or ""
                            if p.startswith(selfn + "."):
                                loads.setdefault(p[len(selfn) + 1:], []).append((label, mod, s, withs.get(id(s), ())))
        # containers of the shared object that the closure changes by a method call AND consults (membership, length,
        # iteration, element read) in a condition: what a worker decides then depends on what other workers did meanwhile
        mutated = {}
        for label, mod, fn, kind in fns:
            if kind != "shared-self":
                continue
            selfn = func_params(fn)[0]
            for s in stmts_of(fn):
                if isinstance(s, (ast.If, ast.For, ast.While, ast.Try, ast.With)):
                    continue
                for c in calls_in(s):
                    if isinstance(c.func, ast.Attribute) and c.func.attr in ("add", "discard", "remove", "append", "pop", "clear", "update", "extend", "insert", "setdefault", "popitem"):
                        p_ = access_path(c.func.value) or ""
                        if p_.startswith(selfn + ".") and not p_.startswith(selfn + ".problem."):
                            mutated.setdefault(p_[len(selfn) + 1:], []).append((label, mod, s))
        for rel, muts in mutated.items():
            conds = []
            for label, mod, fn, kind in fns:
                if kind != "shared-self":
                    continue
                selfn = func_params(fn)[0]
                for s in stmts_of(fn):
                    tests = [s.test] if isinstance(s, (ast.If, ast.While)) else ([x.test for x in ast.walk(s) if isinstance(x, ast.IfExp)] if not isinstance(s, (ast.For, ast.Try, ast.With)) else [])
                    for t in tests:
                        if any(isinstance(n, ast.Attribute) and access_path(n) == selfn + "." + rel for n in ast.walk(t)):
                            conds.append((label, mod, s, t))
            withs_ok = False
            if conds:
                m, cnd = muts[0], conds[0]
                ctx.violated("R2", m[0], where(cnd[1], cnd[2]),
                             "%s changes the shared container self.%s (%s) and %s branches on it (%s): all worker threads share this object, so whether a design is "
                             "processed depends on what another worker is doing at that moment" % (m[0], rel, text(m[2]).strip()[:60], cnd[0], text(cnd[3])[:80]),
                             key="shared-container:%s.%s" % (obj, rel), facts={"object": obj, "attribute": rel})
            else:
                listed.append("%s.%s: shared container changed by method calls, never consulted in a condition inside the closure" % (obj, rel))
        for rel, sts in stores.items():
            rds = [l for l in loads.get(rel, []) if not any(l[2] is st[2] for st in sts if st[3])]
            only_aug = all(st[3] for st in sts)
            # loads that are prefixes used for method calls on a deeper path do not read the rebound value itself
            if not rds and only_aug:
                listed.append("%s.%s: counter updated by `+= 1` only (not atomic, but its value never reaches a design)" % (obj, rel))
                continue
            if not rds:
                listed.append("%s.%s: written but never read inside the worker closure" % (obj, rel))
                continue
            # protected by a common lock?
            locked = all(x[4] for x in sts) and all(any(set(x[4]) & set(r[3]) for x in sts) for r in rds)
            if locked:
                listed.append("%s.%s: written and read under a common `with` lock" % (obj, rel))
                continue
            st = sts[0]
            rd = rds[0]
            ctx.violated("R2", st[0], where(st[1], st[2]),
                         "%s stores per-call data in the shared attribute self.%s (%s) and %s reads it back (%s): all worker threads share this object, so a design can be "
                         "completed with the value another worker wrote in between" % (st[0], rel, text(st[2]).strip()[:70], rd[0], text(rd[2]).strip()[:70]),
                         key="shared:%s.%s" % (obj, rel), facts={"object": obj, "attribute": rel})
    # class attributes (Individual.counter): read only into the object under construction
    ind = repo.cls("Individual", "individual")
    init = ind.methods["__init__"]
    selfn = func_params(init)[0]
    for label, mod, fn, kind in cl:
        for s in stmts_of(fn):
            for n in walk_no_nested(s) if not isinstance(s, (ast.If, ast.For, ast.While, ast.Try, ast.With)) else []:
                if isinstance(n, ast.Attribute) and isinstance(n.value, ast.Name) and repo.has_cls(n.value.id) and isinstance(n.ctx, ast.Load) \
                        and n.attr in repo.cls(n.value.id).class_attrs and not isinstance(repo.cls(n.value.id).class_attrs[n.attr], (ast.Lambda,)):
                    path = "%s.%s" % (n.value.id, n.attr)
                    if n.attr.isupper() or n.attr == "State":
                        continue
                    if isinstance(s, ast.AugAssign) and s.target is n:
                        continue
                    ok = fn is init and isinstance(s, ast.Assign) and all((access_path(t) or "").startswith(selfn + ".") for t in s.targets)
                    if ok:
                        listed.append("%s: class counter read only into %s of an object constructed inside the worker (%s)" % (path, text(s.targets[0]), label))
                    else:
                        ctx.violated("R2", label, where(mod, s), "the class attribute %s, shared by all threads, is read into %s" % (path, text(s).strip()[:70]), key="shared:%s" % path)
    # atomic container mutations
    job = cl[0][2]
    for c in calls_in(job):
        p = access_path(c.func) or ""
        if p.endswith(".append") and ".problem." in p:
            listed.append("%s: shared container mutated through list.append (atomic under the GIL; not a per-design observable)" % p)
    # a worker writes its own design only: a whole-registry write from inside the closure stores the other workers' designs
    # in whatever state they are at that moment, and may land after their owners' final write
    whole = []
    for label, mod, fn, kind in cl:
        if not label.startswith("Job."):
            continue
        for s_ in stmts_of(fn):
            if isinstance(s_, (ast.If, ast.For, ast.While, ast.Try, ast.With)):
                continue
            for c in calls_in(s_):
                if (access_path(c.func) or "").endswith(".data_store.sync_all") or (access_path(c.func) or "").endswith(".sync_all"):
                    whole.append((label, mod, s_))
    if whole:
        label, mod, s_ = whole[0]
        ctx.violated("R2", label, where(mod, s_), "%s writes the WHOLE registry to the store (%s) from inside a worker: the rows of designs that other workers are still "
                     "evaluating are written in their unfinished state and can overwrite the owners' final rows when this write lands last" % (label, text(s_).strip()[:60]),
                     key="whole-registry-write")
    ctx.extra["shared_state_in_worker_closure"] = listed
    ctx.sample({"shared state touched by the worker closure (not alarmed)": listed})
    if not any(i.rule == "R2" and i.outcome == "VIOLATED" for i in ctx.instances):
        ctx.holds("R2", "worker-closure", "", "no shared attribute is both rebound and read inside the closure of Job.evaluate (%d functions); %d benign shared accesses listed in the evidence" % (len(cl), len(listed)))


def run(ctx):
    for rid, doc in (("R1", "one task per design, shared memory"), ("R2", "no shared location written and read inside the worker closure feeds a design"),
                     ("R3", "thread-safe store: fresh connection per call, contention retried")):
        ctx.rule(rid, doc)
    ctx.axiom("joblib Parallel(require='sharedmem') runs each delayed call exactly once on a thread sharing memory")
    ctx.axiom("under the GIL list.append is atomic; x += 1 on a shared attribute is not")
    ctx.assume("the user's objective/constraint functions are thread-safe; predicting surrogates are outside the claim; equality with serial results as such is not decided")
    repo = ctx.repo
    r1_dispatch(ctx, repo)
    r2_races(ctx, repo)
    ds = repo.cls("SqliteDataStore", "datastore")
    sub = SubCtx(ctx, "R3", prefix="thread-safe store: ")
    c11.r3_conn(sub, repo, ds)
    c11.r2_sync(sub, repo, ds)
