"""C19 - surrogate wrapper: true values unless predicting; exact accounting.

All control-flow paths of SurrogateModelPredict.evaluate (with
evaluate_individual inlined) and SurrogateModelEval.evaluate are enumerated
over the atoms {trained, hook present, hook result None, train_step = -1,
counter divisible}.  Along each path the value returned is tracked by
provenance (objective result / hook result / something else).

R1  every path increments exactly one of the two counters, exactly once.
R2  a hook result is returned only on paths where `trained`, the hook test and
    `result is not None` were all taken true; it is counted as a prediction.
R3  otherwise the objective is called exactly once and its result is returned
    unmodified and counted as an evaluation; nothing else is ever returned.
R4  on evaluation paths add_data(<vector of the same individual>, <that value>)
    runs exactly once, after the objective call; the counter is incremented
    before the divisibility test; train() runs iff step != -1 and divisible.
R5  every train() of a predicting surrogate leaves `trained` True on all
    normal paths.
R6  add_data appends x to the x list and y to the y list, once each.
"""
import ast

from ..astutil import text, access_path, calls_in, func_params, is_const, const_value, stmts_of
from ..loader import where, AnalysisError
from ..paths import Enumerator
from ..terms import PathEnv


def is_obj_call(c):
    p = access_path(c.func)
    return p is not None and p.endswith(".problem.evaluate")


def is_hook_call(c):
    p = access_path(c.func)
    return p is not None and p.endswith(".problem.predict")


def counter_of(stmt):
    if isinstance(stmt, ast.AugAssign) and isinstance(stmt.op, ast.Add):
        p = access_path(stmt.target) or ""
        for k in ("eval_counter", "predict_counter"):
            if p.endswith("." + k):
                inc = const_value(stmt.value) if is_const(stmt.value) else None
                return k, inc
    if isinstance(stmt, ast.Assign) and len(stmt.targets) == 1:
        p = access_path(stmt.targets[0]) or ""
        for k in ("eval_counter", "predict_counter"):
            if p.endswith("." + k):
                v = stmt.value
                if isinstance(v, ast.BinOp) and isinstance(v.op, ast.Add) and (access_path(v.left) or "").endswith("." + k) and is_const(v.right):
                    return k, const_value(v.right)
                return k, None
    return None


class PathFacts:
    """provenance tags along one enumerated path"""

    def __init__(self, path, ind_param):
        self.path = path
        self.ret_tag = None
        self.ret_modified = False
        self.events = []  # (index, kind, payload)
        frames = [{}]   # per inlined frame: name -> tag
        pending = None  # return tag of the callee that just ended
        obj_calls = hook_calls = 0
        self.guards = []
        for i, e in enumerate(path.events):
            env = frames[-1]
            if e.kind == "call":
                frames.append({})
                continue
            if e.kind == "endcall":
                callee_env = frames.pop()
                r = e.val
                pending = (e.node, self._tag_of(r.value, callee_env) if (r is not None and r.value is not None) else (None, False))
                continue
            if e.kind == "guard":
                self.guards.append((i, e.node, e.val, self._classify_guard(e.node, env)))
                for c in calls_in(e.node):
                    if is_obj_call(c):
                        obj_calls += 1
                        self.events.append((i, "obj", c))
                    if is_hook_call(c):
                        hook_calls += 1
                continue
            if e.kind in ("stmt", "return"):
                node = e.node
                val = getattr(node, "value", None)
                inlined_here = pending is not None and val is pending[0]
                if not inlined_here:
                    for c in calls_in(node):
                        if is_obj_call(c):
                            obj_calls += 1
                            self.events.append((i, "obj", c))
                        elif is_hook_call(c):
                            hook_calls += 1
                            self.events.append((i, "hook", c))
                        else:
                            nm = access_path(c.func) or ""
                            if nm.endswith(".add_data"):
                                self.events.append((i, "add_data", (c, dict(env))))
                            elif nm.endswith(".train"):
                                self.events.append((i, "train", c))
                cnt = counter_of(node) if e.kind == "stmt" else None
                if cnt:
                    self.events.append((i, "count", cnt))
                if isinstance(node, ast.Assign) and len(node.targets) == 1 and isinstance(node.targets[0], ast.Name):
                    if inlined_here:
                        env[node.targets[0].id] = pending[1]
                    else:
                        env[node.targets[0].id] = self._tag_of(node.value, env)
                elif isinstance(node, ast.AugAssign) and isinstance(node.target, ast.Name):
                    t = env.get(node.target.id, (None, False))
                    env[node.target.id] = (t[0], True)
                if e.kind == "return" and len(frames) == 1:
                    if node.value is None:
                        self.ret_tag, self.ret_modified = None, False
                    elif inlined_here:
                        self.ret_tag, self.ret_modified = pending[1]
                    else:
                        self.ret_tag, self.ret_modified = self._tag_of(node.value, env)
                if inlined_here:
                    pending = None
        self.obj_calls = obj_calls
        self.hook_calls = hook_calls

    @staticmethod
    def _tag_of(expr, env):
        if isinstance(expr, ast.Name):
            return env.get(expr.id, (None, False))
        if isinstance(expr, ast.Call):
            if is_obj_call(expr):
                return ("OBJ", False)
            if is_hook_call(expr):
                return ("PRED", False)
        if isinstance(expr, ast.Constant):
            return ("CONST", False)
        # an answer looked up in a container kept on the object (a table of earlier answers)
        if (isinstance(expr, ast.Call) and isinstance(expr.func, ast.Attribute) and expr.func.attr in ("get", "pop", "setdefault") and expr.args
                and (access_path(expr.func.value) or "").count(".") >= 1) or \
                (isinstance(expr, ast.Subscript) and not isinstance(expr.slice, ast.Slice) and (access_path(expr.value) or "").count(".") >= 1
                 and not (access_path(expr.value) or "").endswith((".vector", ".costs", ".costs_signed"))):
            return ("TABLE", False)
        # any other expression mentioning a tagged name is a modified value
        tags = {env[n.id][0] for n in ast.walk(expr) if isinstance(n, ast.Name) and n.id in env and env[n.id][0] in ("OBJ", "PRED")}
        for c in ast.walk(expr):
            if isinstance(c, ast.Call) and is_obj_call(c):
                tags.add("OBJ")
            if isinstance(c, ast.Call) and is_hook_call(c):
                tags.add("PRED")
        if len(tags) == 1:
            return (tags.pop(), True)
        if tags:
            return ("MIXED", True)
        return (None, False)

    @staticmethod
    def _classify_guard(atom, env):
        t = text(atom)
        if isinstance(atom, ast.Attribute) and atom.attr == "trained":
            return "TRAINED"
        if ("'predict'" in t or '"predict"' in t) and ("dir(" in t or "hasattr(" in t):
            return "HOOK"
        if isinstance(atom, ast.Compare) and len(atom.ops) == 1 and isinstance(atom.comparators[0], ast.Constant) \
                and atom.comparators[0].value is None and isinstance(atom.left, ast.Name):
            tag = env.get(atom.left.id, (None, False))[0]
            if tag == "PRED":
                return "RES_IS_NONE" if isinstance(atom.ops[0], (ast.Is, ast.Eq)) else "RES_NOT_NONE"
            return "OTHER_NONE"
        if isinstance(atom, ast.Compare) and len(atom.ops) == 1 and "train_step" in t and "%" not in t:
            try:
                c = [const_value(x) for x in [atom.left] + atom.comparators if is_const(x)]
            except ValueError:
                c = []
            if c == [-1]:
                return "STEP_ENABLED" if isinstance(atom.ops[0], ast.NotEq) else ("STEP_DISABLED" if isinstance(atom.ops[0], ast.Eq) else "STEP?")
        if "%" in t and "train_step" in t and "eval_counter" in t and isinstance(atom, ast.Compare) and len(atom.ops) == 1:
            if is_const(atom.comparators[0]) and const_value(atom.comparators[0]) == 0 and isinstance(atom.left, ast.BinOp) \
                    and isinstance(atom.left.op, ast.Mod) and "eval_counter" in text(atom.left.left) and "train_step" in text(atom.left.right):
                return "DIVISIBLE" if isinstance(atom.ops[0], ast.Eq) else ("NOT_DIVISIBLE" if isinstance(atom.ops[0], ast.NotEq) else "DIV?")
            return "DIV?"
        return None

    def guard_true(self, kinds):
        """True if a guard of one of `kinds` was taken True, or its negation taken False"""
        neg = {"RES_NOT_NONE": "RES_IS_NONE", "STEP_ENABLED": "STEP_DISABLED", "DIVISIBLE": "NOT_DIVISIBLE"}
        for _, _, val, k in self.guards:
            if k in kinds and val:
                return True
            for a, b in neg.items():
                if a in kinds and k == b and not val:
                    return True
        return False


def check_predict(ctx, repo):
    cls = repo.cls("SurrogateModelPredict", "surrogate")
    mod = cls.module
    ev = repo.method("SurrogateModelPredict", "evaluate")
    construct = "SurrogateModelPredict.evaluate"
    selfn = func_params(ev)[0]
    indp = func_params(ev)[1]

    def inline(call, st):
        p = access_path(call.func)
        if p and p.startswith(selfn + ".") and p.count(".") == 1:
            name = p.split(".")[1]
            r = repo.find_method(cls, name)
            if r is not None and name not in ("add_data", "train", "init_default_regressor", "predict", "compute"):
                return r[1]
        return None
    paths = Enumerator(loop_counts=(0, 1), inline=inline).function_paths(ev)
    ctx.count("paths_predict", len(paths))
    if len(paths) < 4:
        raise AnalysisError("only %d paths through SurrogateModelPredict.evaluate: the evaluate_individual call could not be inlined" % len(paths))
    seen_pred = seen_eval = 0
    table = []
    ok = {"R1": True, "R2": True, "R3": True, "R4": True}

    def bad(rule, p, msg, key):
        if ok[rule]:
            ctx.violated(rule, construct, where(mod, ev), "%s on the path [%s]" % (msg, p.describe(8)), key=key)
        ok[rule] = False

    for p in paths:
        if p.outcome == "raise":
            continue
        f = PathFacts(p, indp)
        counts = [(i, c) for i, k, c in f.events if k == "count"]
        n_eval = sum(1 for _, c in counts if c[0] == "eval_counter")
        n_pred = sum(1 for _, c in counts if c[0] == "predict_counter")
        incs_ok = all(c[1] == 1 for _, c in counts)
        table.append({"guards": [("%s=%s" % (k or text(a)[:30], v)) for _, a, v, k in f.guards],
                      "returns": f.ret_tag, "objective_calls": f.obj_calls, "eval+": n_eval, "predict+": n_pred,
                      "train": sum(1 for _, k, _c in f.events if k == "train")})
        if n_eval + n_pred != 1 or not incs_ok:
            bad("R1", p, "eval_counter is incremented %d time(s) and predict_counter %d time(s) (expected exactly one increment by 1 per request)" % (n_eval, n_pred), "one-counter")
        if f.ret_tag == "PRED":
            seen_pred += 1
            if not (f.guard_true({"TRAINED"}) and f.guard_true({"HOOK"}) and f.guard_true({"RES_NOT_NONE"})):
                bad("R2", p, "a hook result is returned although not all of {model trained, hook present, result not None} were established", "prediction-guarded")
            if f.ret_modified:
                bad("R2", p, "the hook result is post-processed before being returned", "prediction-guarded")
            if n_pred != 1 or n_eval != 0:
                bad("R2", p, "a returned prediction is counted as eval+%d predict+%d" % (n_eval, n_pred), "prediction-counted")
            if f.obj_calls != 0:
                bad("R3", p, "the objective is also evaluated (%d call) on a prediction path" % f.obj_calls, "objective-once")
            n_tr = sum(1 for _, k, _c in f.events if k == "train")
            n_ad = sum(1 for _, k, _c in f.events if k == "add_data")
            if n_tr or n_ad:
                bad("R4", p, "a request answered by a prediction %s: retraining must happen exactly at every train_step-th true evaluation and only true values are training data"
                    % ("retrains the model" if n_tr else "adds training data"), "train-when")
        elif f.ret_tag == "OBJ":
            seen_eval += 1
            # the true objective stands in only when no prediction can be had: the model is not trained, the problem has no
            # hook, or the hook was asked and declined.  A trained model whose hook is never asked (a further condition
            # decides) turns every accepted prediction into an evaluation that is counted, stored and can retrain the model
            hook_absent = any(k == "HOOK" and not val for _, _, val, k in f.guards)
            if f.guard_true({"TRAINED"}) and not hook_absent and f.hook_calls == 0:
                other = [text(a)[:60] for _, a, val, k in f.guards if k not in ("TRAINED", "HOOK") and not val][:1]
                bad("R2", p, "the model is trained, yet the objective is evaluated without the predict hook having been asked%s: a prediction the hook would give is not used, "
                    "the request is counted as an evaluation and its value enters the training set" % ((" (the path is taken because `%s` is false)" % other[0]) if other else ""),
                    "prediction-guarded")
            if f.ret_modified:
                bad("R3", p, "the objective value is modified before being returned", "unmodified")
            if f.obj_calls != 1:
                bad("R3", p, "the objective is called %d times for one request" % f.obj_calls, "objective-once")
            if n_eval != 1 or n_pred != 0:
                bad("R3", p, "a true evaluation is counted as eval+%d predict+%d" % (n_eval, n_pred), "evaluation-counted")
            # R4
            obj_i = [i for i, k, _ in f.events if k == "obj"]
            adds = [(i, c) for i, k, c in f.events if k == "add_data"]
            if len(adds) != 1:
                bad("R4", p, "add_data is called %d times for one true evaluation" % len(adds), "add-data")
            else:
                ai, (call, env) = adds[0]
                a = call.args
                good_args = len(a) == 2 and access_path(a[0]) is not None and access_path(a[0]).endswith(".vector") \
                    and isinstance(a[1], ast.Name) and env.get(a[1].id, (None, False)) == ("OBJ", False)
                if not good_args:
                    bad("R4", p, "add_data(%s) does not record (individual.vector, the objective value)" % ", ".join(text(x) for x in a), "add-data")
                elif obj_i and ai < obj_i[0]:
                    bad("R4", p, "add_data runs before the objective call", "add-data")
            inc_i = [i for i, c in counts if c[0] == "eval_counter"]
            div_i = [i for i, a_, v, k in f.guards if k in ("DIVISIBLE", "NOT_DIVISIBLE", "DIV?")]
            if any(k == "DIV?" or k == "STEP?" for _, _, _, k in f.guards):
                ctx.inconclusive("R4", construct, where(mod, ev), "unrecognised form of the train_step tests", key="train-when")
                ok["R4"] = False
            if inc_i and div_i and div_i[0] < inc_i[0]:
                bad("R4", p, "the divisibility test reads the counter before it is incremented (training shifts by one evaluation)", "train-when")
            trains = sum(1 for _, k, _c in f.events if k == "train")
            should = f.guard_true({"STEP_ENABLED"}) and f.guard_true({"DIVISIBLE"})
            if trains != (1 if should else 0):
                bad("R4", p, "train() runs %d time(s) where step-enabled=%s and divisible=%s" % (trains, f.guard_true({"STEP_ENABLED"}), f.guard_true({"DIVISIBLE"})), "train-when")
            train_i = [i for i, k, _c in f.events if k == "train"]
            if train_i and adds and train_i[0] < adds[0][0]:
                bad("R4", p, "the model is retrained before the new sample is added to the training set", "train-when")
        elif f.ret_tag == "TABLE":
            bad("R2", p, "the request is answered from a table of earlier answers kept on the surrogate, without asking the predict hook for THIS request: a prediction is used only "
                "when the hook returns a value, and a hook that declines now (it may decide per request) is bypassed by the stored answer; the request is then counted as a prediction "
                "and no true evaluation happens", "prediction-guarded")
        else:
            bad("R3", p, "the request returns %s: neither the objective value nor a guarded prediction" % (f.ret_tag,), "returns-something")
    ctx.extra["decision_table_predict"] = table
    for t in table[:6]:
        ctx.sample(t)
    if seen_pred == 0 or seen_eval == 0:
        ctx.inconclusive("R2", construct, where(mod, ev), "expected both prediction and evaluation paths (found %d / %d)" % (seen_pred, seen_eval), key="shape")
    for rule, msgs in (("R1", "exactly one counter increment per request on all %d paths" % len(paths)),
                       ("R2", "predictions returned only when trained & hook present & result not None; counted as predictions (%d paths)" % seen_pred),
                       ("R3", "otherwise the objective is called once, returned unmodified, counted as evaluation (%d paths)" % seen_eval),
                       ("R4", "add_data(vector, value) once after the call; increment before modulo; train iff enabled and divisible")):
        if ok[rule]:
            ctx.holds(rule, construct, where(mod, ev), msgs)


def check_eval(ctx, repo):
    cls = repo.cls("SurrogateModelEval", "surrogate")
    mod = cls.module
    ev = cls.methods.get("evaluate")
    construct = "SurrogateModelEval.evaluate"
    if ev is None:
        raise AnalysisError("SurrogateModelEval.evaluate not found")
    paths = Enumerator(loop_counts=(0, 1)).function_paths(ev)
    ctx.count("paths_eval", len(paths))
    good = True
    for p in paths:
        if p.outcome == "raise":
            continue
        f = PathFacts(p, func_params(ev)[1])
        counts = [c for _, k, c in f.events if k == "count"]
        n_eval = sum(1 for c in counts if c[0] == "eval_counter" and c[1] == 1)
        n_other = len(counts) - n_eval
        if n_eval != 1 or n_other:
            ctx.violated("R1", construct, where(mod, ev), "pass-through surrogate increments eval_counter %d time(s) (+%d other counter writes) per request" % (n_eval, n_other), key="one-counter")
            good = False
        if f.ret_tag != "OBJ" or f.ret_modified or f.obj_calls != 1:
            ctx.violated("R3", construct, where(mod, ev), "pass-through surrogate returns %s%s after %d objective call(s); expected the unmodified objective value of exactly one call"
                         % (f.ret_tag, " (modified)" if f.ret_modified else "", f.obj_calls), key="unmodified")
            good = False
    if good:
        ctx.holds("R1", construct, where(mod, ev), "eval_counter += 1 exactly once per request", key="one-counter")
        ctx.holds("R3", construct, where(mod, ev), "returns the objective value of exactly one call, unmodified", key="unmodified")


def check_train(ctx, repo):
    subs = [c for c in repo.subclasses("SurrogateModelPredict") if "train" in c.methods]
    ctx.count("train_implementations", len(subs))
    if len(subs) < 2:
        raise AnalysisError("expected train() in at least 2 predicting surrogates, found %d" % len(subs))
    for c in subs:
        fn = c.methods["train"]
        selfn = func_params(fn)[0]
        construct = "%s.train" % c.name
        paths = Enumerator(loop_counts=(0, 1)).function_paths(fn)
        bad = None
        for p in paths:
            if p.outcome == "raise":
                continue
            last = None
            for e in p.events:
                if e.kind == "stmt" and isinstance(e.node, ast.Assign) and any(access_path(t) == selfn + ".trained" for t in e.node.targets):
                    last = e.node
            if last is None or not (is_const(last.value) and const_value(last.value) is True):
                bad = (p, last)
                break
        if bad:
            ctx.violated("R5", construct, where(c.module, bad[1] or fn), "after train() the model is not marked trained on the path [%s] (last write: %s): predictions are never used / retraining is silently lost"
                         % (bad[0].describe(5), text(bad[1]) if bad[1] is not None else "none"))
        else:
            ctx.holds("R5", construct, where(c.module, fn), "trained = True is the last write on all %d normal paths" % len(paths))


def check_add_data(ctx, repo):
    fn = repo.method("SurrogateModel", "add_data")
    mod = repo.cls("SurrogateModel").module
    ps = func_params(fn)
    # on every normal path: exactly one append of x to x_data and one of y to y_data (values read through the path's bindings)
    want = {ps[0] + ".x_data": ps[1], ps[0] + ".y_data": ps[2]}
    state, apps = True, []
    paths = [p for p in Enumerator(loop_counts=(0, 1)).function_paths(fn) if p.outcome != "raise"]
    for p in paths:
        pe = PathEnv(fn, p.events)
        got = {}
        for i_, e in enumerate(p.events):
            if e.kind == "stmt" and isinstance(e.node, ast.Expr) and isinstance(e.node.value, ast.Call) and isinstance(e.node.value.func, ast.Attribute) \
                    and e.node.value.func.attr in ("append", "extend", "insert") and e.node.value.args:
                recv = access_path(pe.expand_at(e.node.value.func.value, i_))
                arg = access_path(pe.expand_at(e.node.value.args[-1], i_))
                if recv in want:
                    got.setdefault(recv, []).append((e.node.value.func.attr, arg))
                    apps.append((recv, arg))
        for recv, arg in want.items():
            g = got.get(recv, [])
            if g == [("append", arg)]:
                continue
            if len(g) != 1 or g[0][0] != "append" or (g[0][1] in (ps[1], ps[2]) and g[0][1] != arg):
                state = False       # conditional / repeated / swapped sample
            elif state:
                state = None
    if not paths:
        state = None
    ctx.check3(state, "R6", "SurrogateModel.add_data", where(mod, fn), "x appended to x_data and y to y_data, once each, on every path",
               "appends found: %r (expected x -> x_data and y -> y_data, once each, unconditionally)" % (sorted(set(apps)),), "add_data shape not recognised")


def run(ctx):
    for rid, doc in (("R1", "exactly one counter incremented, once, on every path"),
                     ("R2", "prediction returned only if trained & hook & result not None; counted as prediction"),
                     ("R3", "otherwise objective called once, returned unmodified, counted as evaluation"),
                     ("R4", "add_data once after the call with (vector, value); increment before modulo test; train iff step != -1 and divisible"),
                     ("R5", "train() leaves trained True"), ("R6", "add_data appends the pair once, in order")):
        ctx.rule(rid, doc)
    ctx.axiom("self.problem.surrogate is the surrogate object itself (counters reached through either path are the same)")
    ctx.assume("the objective and the predict hook do not touch the surrogate's counters or training data")
    check_predict(ctx, ctx.repo)
    check_eval(ctx, ctx.repo)
    check_train(ctx, ctx.repo)
    check_add_data(ctx, ctx.repo)
