"""C20 - design-point equality means equal coordinates and agrees with hashing.

R1  `__eq__` of Individual (and of every subclass that overrides it) is solved
    as a finite automaton: the coordinate loop is run over the letters
    Z (coordinates equal), P / N (self-other = +/- a difference beyond every
    literal tolerance); the abstract environments at the loop head are the
    states.  Oracle: for every word of length >= 1 the returned value is True
    iff every letter is Z.  The iteration domain must be exactly
    [0, len(vector)) (affine check of the range bounds).
R2  symmetry follows from R1 (P and N are both required to give False).
R3  `__hash__` is defined next to `__eq__` and is a function of the values in
    `self.vector` only (an id, counter or cost in the hash makes equal
    vectors hash differently; so does the text or byte image of the vector,
    which tells 0.0 from -0.0 and 1 from 1.0).
R4  tolerance literals compared against lie in (0, 1e-10].
R5  (evidence) call sites that rely on the relation.
"""
import ast

from ..absint import Evaluator, Interp, TOP, fin, big, boolean, Unsupported, NONE
from ..astutil import text, access_path, access_paths_in, is_const, const_value, fold
from ..terms import Terms
from ..loader import where, AnalysisError


class EqEval(Evaluator):
    """coordinates of the two vectors are ('coord', 's'|'o'); their relation is the current letter"""

    def binop(self, node, a, b, env):
        if a[0] == "coord" and b[0] == "coord" and isinstance(node.op, ast.Sub) and a[1] != b[1]:
            letter = env.get("__letter__")
            if letter == "Z":
                return fin(0.0)
            s = 1 if letter == "P" else -1
            return big(s if a[1] == "s" else -s)
        if a[0] == "coord" or b[0] == "coord":
            return TOP
        return super().binop(node, a, b, env)

    def rel(self, a, b, env):
        if a[0] == "coord" and b[0] == "coord":
            if a[1] == b[1]:
                return {"="}
            letter = env.get("__letter__")
            r = {"Z": "=", "P": ">", "N": "<"}[letter]
            if a[1] == "o":
                r = {"<": ">", ">": "<", "=": "="}[r]
            return {r}
        return super().rel(a, b, env)


class EqClient:
    def __init__(self, fn, selfn, othern):
        self.fn, self.selfn, self.othern = fn, selfn, othern
        self.loops = {}
        self.isclose = []

    def vec_side(self, node):
        p = access_path(node)
        if p == self.selfn + ".vector":
            return "s"
        if p == self.othern + ".vector":
            return "o"
        return None

    # -- evaluator hooks
    def lookup(self, node, env, ev):
        if isinstance(node, ast.Subscript):
            side = self.vec_side(node.value)
            if side is not None:
                idx = access_path(node.slice)
                if idx is not None and env.get(idx) == ("idx",):
                    return [("coord", side)]
                return [TOP]
        return None

    def call(self, node, env, ev):
        """math.isclose / np.isclose / np.allclose on the two coordinates (or vectors)"""
        nm = access_path(node.func) or ""
        short = nm.split(".")[-1]
        if short in ("isclose", "allclose") and len(node.args) >= 2:
            kw = {k.arg: k.value for k in node.keywords}
            is_math = nm.startswith("math.") or nm == "isclose"
            rel_name, abs_name = ("rel_tol", "abs_tol") if is_math else ("rtol", "atol")
            rel_default, abs_default = (1e-9, 0.0) if is_math else (1e-5, 1e-8)
            try:
                rel = fold(kw[rel_name]) if rel_name in kw else rel_default
                ab = fold(kw[abs_name]) if abs_name in kw else abs_default
            except ValueError:
                return [TOP]
            self.isclose.append((node, rel, ab))
            a, b = ev.one(node.args[0], env), ev.one(node.args[1], env)
            if a[0] == "coord" and b[0] == "coord" and a[1] != b[1]:
                return [boolean(env.get("__letter__") == "Z")]
            return [TOP]
        return None

    # -- interpreter hooks
    def classify_loop(self, node):
        """-> ('range', var) | ('zip', svar, ovar) | None ; plus domain verdict"""
        it = node.iter
        if isinstance(it, ast.Call) and isinstance(it.func, ast.Name):
            if it.func.id == "range" and isinstance(node.target, ast.Name):
                return ("range", node.target.id)
            if it.func.id == "zip" and len(it.args) == 2 and isinstance(node.target, ast.Tuple) \
                    and len(node.target.elts) == 2 and all(isinstance(e, ast.Name) for e in node.target.elts):
                sides = [self.vec_side(a) for a in it.args]
                if set(sides) == {"s", "o"}:
                    return ("zip", dict(zip(sides, [e.id for e in node.target.elts])))
            if it.func.id == "enumerate" and len(it.args) == 1 and isinstance(node.target, ast.Tuple) \
                    and len(node.target.elts) == 2 and all(isinstance(e, ast.Name) for e in node.target.elts):
                side = self.vec_side(it.args[0])
                if side is not None:
                    return ("enum", node.target.elts[0].id, side, node.target.elts[1].id)
        return None

    def loop(self, node, env, ref=None):
        if not isinstance(node, ast.For):
            return None
        c = self.classify_loop(node)
        if c is None:
            return None
        self.loops[node] = c
        return ("letters", ["Z", "P", "N"])

    def bind(self, node, letter, env, ref):
        c = self.loops[node]
        env["__letter__"] = letter
        if c[0] == "range":
            env[c[1]] = ("idx",)
        elif c[0] == "zip":
            env[c[1]["s"]] = ("coord", "s")
            env[c[1]["o"]] = ("coord", "o")
        elif c[0] == "enum":
            env[c[1]] = ("idx",)
            env[c[3]] = ("coord", c[2])
        return env, (ref or letter != "Z")


def range_domain(ctx, mod, cname, fn, loop, client):
    """affine check that a range-based coordinate loop covers [0, len(vector))"""
    it = loop.iter
    args = it.args
    if len(args) == 1:
        start, stop, step = None, args[0], None
    elif len(args) == 2:
        start, stop, step = args[0], args[1], None
    else:
        start, stop, step = args
    construct = "%s.__eq__" % cname
    ok = True
    if start is not None:
        try:
            s = fold(start)
            if s != 0:
                ctx.violated("R1", construct, where(mod, loop), "coordinate loop starts at %r: coordinates before it are never compared" % (s,), key="range-start")
                ok = False
        except ValueError:
            ctx.inconclusive("R1", construct, where(mod, loop), "range start %s is not a literal" % text(start), key="range-start")
            ok = False
    if step is not None:
        try:
            if fold(step) != 1:
                ctx.violated("R1", construct, where(mod, loop), "coordinate loop has step %s" % text(step), key="range-step")
                ok = False
        except ValueError:
            ctx.inconclusive("R1", construct, where(mod, loop), "range step not literal", key="range-step")
            ok = False
    # stop = len(<vec>) + c
    off = 0
    base = stop
    if isinstance(stop, ast.BinOp) and isinstance(stop.op, (ast.Add, ast.Sub)):
        try:
            c = fold(stop.right)
            off = c if isinstance(stop.op, ast.Add) else -c
            base = stop.left
        except ValueError:
            pass
    is_len = isinstance(base, ast.Call) and isinstance(base.func, ast.Name) and base.func.id == "len" \
        and len(base.args) == 1 and client.vec_side(base.args[0]) is not None
    if not is_len:
        ctx.inconclusive("R1", construct, where(mod, loop), "range stop %s is not len(<vector>) + literal" % text(stop), key="range-stop")
        return False
    if off < 0:
        ctx.violated("R1", construct, where(mod, loop), "coordinate loop stops at len(vector)%+d: the last coordinate(s) are never compared" % off, key="range-stop")
        return False
    if off > 0:
        ctx.violated("R1", construct, where(mod, loop), "coordinate loop runs past the vector (len%+d)" % off, key="range-stop")
        return False
    if ok:
        ctx.holds("R1", construct, where(mod, loop), "iteration domain is [0, len(vector))", key="range")
    return ok


def whole_vector_form(fn, client):
    """recognise loop-free definitions; -> (verdict, detail) or None"""
    if len(fn.body) != 1 and not (len(fn.body) == 2 and isinstance(fn.body[0], ast.Expr)):
        return None
    ret = fn.body[-1]
    if not isinstance(ret, ast.Return) or ret.value is None:
        return None
    v = ret.value
    if isinstance(v, ast.Compare) and len(v.ops) == 1 and isinstance(v.ops[0], ast.Eq):
        sides = {client.vec_side(v.left), client.vec_side(v.comparators[0])}
        if sides == {"s", "o"}:
            return ("holds", "whole-vector equality of the two coordinate lists")
        wrap = []
        for e in (v.left, v.comparators[0]):
            if isinstance(e, ast.Call) and isinstance(e.func, ast.Name) and e.func.id in ("tuple", "list") and len(e.args) == 1:
                wrap.append(client.vec_side(e.args[0]))
        if set(wrap) == {"s", "o"}:
            return ("holds", "whole-vector equality of the two coordinate sequences")
    return None


def check_eq(ctx, mod, cname, fn):
    construct = "%s.__eq__" % cname
    params = [a.arg for a in fn.args.args]
    if len(params) != 2:
        ctx.inconclusive("R1", construct, where(mod, fn), "unexpected signature")
        return
    client = EqClient(fn, params[0], params[1])
    wv = whole_vector_form(fn, client)
    if wv is not None:
        ctx.holds("R1", construct, where(mod, fn), wv[1])
        ctx.holds("R2", construct, where(mod, fn), "sequence equality is symmetric")
        ctx.holds("R4", construct, where(mod, fn), "no tolerance: coordinates are compared exactly")
        return
    # fixed-coordinate dependence without any coordinate loop
    loops = [n for n in ast.walk(fn) if isinstance(n, ast.For)]
    coord_loops = [l for l in loops if client.classify_loop(l) is not None]
    if not coord_loops:
        sides = {client.vec_side(n) for n in ast.walk(fn) if isinstance(n, ast.Attribute)} - {None}
        if sides != {"s", "o"}:
            ctx.violated("R1", construct, where(mod, fn),
                         "equality never reads the coordinates of %s: it cannot mean 'equal coordinates'"
                         % ("both operands" if not sides else "one operand"))
            return
        fixed = [n for n in ast.walk(fn) if isinstance(n, ast.Subscript) and client.vec_side(n.value) is not None
                 and is_const(n.slice)]
        if fixed:
            ctx.violated("R1", construct, where(mod, fixed[0]),
                         "equality looks only at the fixed coordinate %s: points differing elsewhere compare equal" % text(fixed[0]))
        else:
            ctx.inconclusive("R1", construct, where(mod, fn), "no coordinate loop and no recognised whole-vector comparison")
        return
    dom_ok = True
    for l in coord_loops:
        c = client.classify_loop(l)
        if c[0] == "range":
            dom_ok = range_domain(ctx, mod, cname, fn, l, client) and dom_ok
        else:
            ctx.holds("R1", construct, where(mod, l), "iteration over %s covers every coordinate" % text(l.iter), key="range")
    ev = EqEval(hooks=client)
    interp = Interp(ev, client)
    try:
        outs = interp.run(fn.body, {}, False)
    except Unsupported as e:
        ctx.inconclusive("R1", construct, where(mod, fn), "outside the analysable fragment: %s" % e)
        return
    ctx.extra.setdefault("automata", {})[construct] = {"states": interp.states, "transitions": interp.transitions}
    bad, unsure, n = None, None, 0
    table = {}
    for o in outs:
        o.word = tuple(x for x in o.word if x != "$")
        if len(o.word) == 0:
            continue  # n >= 1
        n += 1
        want = not o.ref
        got = o.value
        okv = got == boolean(want)
        table.setdefault("".join(o.word)[:6], set()).add(str(got))
        if not okv:
            if o.kind != "return" or got[0] != "bool" or o.tainted:
                if got[0] == "bool" and not o.tainted:
                    bad = bad or (o, want)
                else:
                    unsure = unsure or (o, want)
            else:
                bad = bad or (o, want)
    ctx.sample({"construct": construct, "words->returned": {k: sorted(v) for k, v in sorted(table.items())[:12]}})
    if bad is not None:
        o, want = bad
        ctx.violated("R1", construct, where(mod, o.node or fn),
                     "for the coordinate-difference word %s (Z equal, P/N differ) __eq__ returns %s, expected %s: "
                     "the result does not depend on every coordinate as required" % ("".join(o.word), o.value, want),
                     key="automaton", facts={"word": list(o.word), "returned": str(o.value), "expected": want})
    elif unsure is not None:
        o, want = unsure
        ctx.inconclusive("R1", construct, where(mod, o.node or fn),
                         "word %s: abstract result %s (tainted=%s) cannot be compared with expected %s"
                         % ("".join(o.word), o.value, o.tainted, want), key="automaton")
    elif n == 0:
        ctx.inconclusive("R1", construct, where(mod, fn), "no terminating abstract execution", key="automaton")
    else:
        ctx.holds("R1", construct, where(mod, fn),
                  "%d abstract executions over {Z,P,N}*: True iff all letters Z (states=%d, transitions=%d)"
                  % (n, interp.states, interp.transitions), key="automaton")
        ctx.holds("R2", construct, where(mod, fn), "P and N letters both give False, so swapping the operands cannot change the verdict")
    # R4 tolerance literals
    for node, rel, ab in client.isclose:
        if rel != 0:
            ctx.violated("R4", construct, where(mod, node),
                         "%s uses a relative tolerance (%r): coordinates of large magnitude that differ by more than 1e-10 "
                         "compare equal, while their hashes differ" % (text(node.func), rel), key="relative-tolerance")
        elif not (0 <= ab <= 1e-10):
            ctx.violated("R4", construct, where(mod, node), "absolute tolerance %r outside [0, 1e-10]" % ab, key="relative-tolerance")
    tol_bad, tols = [], []
    for cmp_ in [n_ for n_ in ast.walk(fn) if isinstance(n_, ast.Compare)]:
        for e in [cmp_.left] + list(cmp_.comparators):
            if is_const(e):
                c = const_value(e)
                if isinstance(c, float):
                    tols.append(c)
                    if not (0 < c <= 1e-10):
                        tol_bad.append((cmp_, c))
    if tol_bad:
        ctx.violated("R4", construct, where(mod, tol_bad[0][0]),
                     "tolerance %r outside (0, 1e-10]: designs further apart than 1e-10 would be merged" % tol_bad[0][1])
    elif tols:
        ctx.holds("R4", construct, where(mod, fn), "tolerance literals %r within (0, 1e-10]" % tols)
    elif client.isclose and all(rel == 0 and 0 <= ab <= 1e-10 for _n, rel, ab in client.isclose):
        ctx.holds("R4", construct, where(mod, fn), "isclose with no relative and an absolute tolerance within [0, 1e-10]")
    elif not client.isclose:
        ctx.holds("R4", construct, where(mod, fn), "no tolerance literal: coordinates are compared exactly")


REPRESENTATION = ("str", "repr", "format", "ascii", "bytes", "json.dumps", "pickle.dumps")


def check_hash(ctx, mod, cls, cname):
    construct = "%s.__hash__" % cname
    if "__hash__" not in cls.methods:
        if "__hash__" in cls.class_attrs:
            ctx.violated("R3", construct, where(mod, cls.node), "__hash__ is assigned (not a function of the vector)")
        else:
            ctx.violated("R3", construct, where(mod, cls.node),
                         "__eq__ is defined without __hash__: instances become unhashable and set()-based de-duplication fails")
        return
    fn = cls.methods["__hash__"]
    selfn = fn.args.args[0].arg
    rets = [n for n in ast.walk(fn) if isinstance(n, ast.Return) and n.value is not None]
    if not rets:
        ctx.violated("R3", construct, where(mod, fn), "__hash__ returns nothing")
        return
    ok = True
    TH = Terms(fn)
    tmap = {id(st_): t_ for st_, t_ in TH.returns}
    import copy as _copy
    for r0 in rets:
        # the returned value with temporaries looked through
        r = _copy.copy(r0)
        if tmap.get(id(r0)) is not None:
            r.value = tmap[id(r0)]
        paths = {p for p in access_paths_in(r.value) if p == selfn or p.startswith(selfn + ".") or p.startswith(selfn + "[")}
        others = {p for p in paths if not (p == selfn + ".vector" or p.startswith(selfn + ".vector["))}
        calls = [access_path(c.func) for c in ast.walk(r.value) if isinstance(c, ast.Call)]
        if others or selfn in paths:
            ctx.violated("R3", construct, where(mod, r),
                         "hash depends on %s, not only on the coordinates: identical vectors can hash differently" % sorted(others or paths))
            ok = False
        elif [c for c in calls if c in REPRESENTATION or (c or "").split(".")[-1] in ("tobytes", "tostring", "dumps", "format")] \
                or any(isinstance(n_, ast.JoinedStr) for n_ in ast.walk(r.value)):
            # the text / byte image of a number is not a function of its value: 0.0 and -0.0, 1 and 1.0, a float and the numpy
            # scalar of the same value compare equal coordinate by coordinate and print differently
            rep = [c for c in calls if c in REPRESENTATION or (c or "").split(".")[-1] in ("tobytes", "tostring", "dumps", "format")] or ["an f-string"]
            ctx.violated("R3", construct, where(mod, r), "the hash is taken of the textual / byte image of the vector (%s), which depends on how a coordinate is represented and not "
                         "only on its value: 0.0 and -0.0 (or 1 and 1.0) give equal points with different hashes, so a set keeps both" % ", ".join(rep))
            ok = False
        elif any(c in ("id", "random.random", "random", "time.time", "object.__hash__", "super") or c is None for c in calls if c not in ("hash", "tuple", "frozenset", "round", "list", "map", "float", "int", "sum")):
            ctx.violated("R3", construct, where(mod, r), "hash uses %s which is not a function of the coordinates" % calls)
            ok = False
        elif not paths:
            # constant hash is consistent (if useless); anything else unknown
            if is_const(r.value):
                ctx.holds("R3", construct, where(mod, r), "constant hash is trivially consistent with equality")
            else:
                ctx.inconclusive("R3", construct, where(mod, r), "hash expression %s does not mention the vector" % text(r.value))
            ok = False
    if ok:
        ctx.holds("R3", construct, where(mod, fn), "hash is a function of self.vector only: %s" % text(rets[0].value))


def r8_remove(ctx, repo):
    """Archive.remove(x) takes out the member that IS x (the same design): list.remove / `==` / `is` on the individuals.
    A member chosen because its COSTS equal those of x is another design whenever two designs reach the same costs"""
    from ..paths import Enumerator
    from ..astutil import calls_in, func_params
    if not repo.has_cls("Archive"):
        return
    cls = repo.cls("Archive")
    fn = cls.methods.get("remove")
    C = "Archive.remove"
    if fn is None:
        return
    mod = cls.module
    ps = func_params(fn)
    if len(ps) < 2:
        ctx.inconclusive("R8", C, where(mod, fn), "signature not recognised")
        return
    sol = ps[1]
    bad = None
    n = ndel = 0
    for p in Enumerator(loop_counts=(0, 1)).function_paths(fn):
        if p.outcome == "raise":
            continue
        n += 1
        by_cost = by_design = None
        for e in p.events:
            if e.kind == "guard" and e.val:
                g = e.node
                if isinstance(g, ast.Compare) and len(g.ops) == 1 and isinstance(g.ops[0], (ast.Eq, ast.Is)):
                    l, r = text(g.left), text(g.comparators[0])
                    if ("costs" in l and "costs" in r) and sol + "." in (l + r):
                        by_cost = by_cost or g
                    elif {access_path(g.left), access_path(g.comparators[0])} >= {sol} and "costs" not in l + r:
                        by_design = by_design or g
            if e.kind != "stmt":
                continue
            s_ = e.node
            deletes = isinstance(s_, ast.Delete) or any(isinstance(c.func, ast.Attribute) and c.func.attr in ("pop", "remove") and "_contents" in (access_path(c.func.value) or "")
                                                         for c in calls_in(s_))
            direct = any(isinstance(c.func, ast.Attribute) and c.func.attr == "remove" and c.args and access_path(c.args[0]) == sol for c in calls_in(s_))
            if deletes:
                ndel += 1
                if by_cost is not None and by_design is None and not direct:
                    bad = bad or (s_, "a member is removed because its costs equal those of the argument (%s), without being the same design: another design that reaches the same objective "
                                  "values is taken out of the archive and remove() reports success (path [%s])" % (text(by_cost), p.describe(5)))
    # the decision delegated to a helper of the class: which of its paths answer "yes", and on what grounds
    if not bad:
        for c in calls_in(fn):
            hn = (access_path(c.func) or "").split(".")[-1]
            hf = cls.methods.get(hn)
            if hf is None or hn == "remove" or sol not in [access_path(a) for a in c.args]:
                continue
            if hasattr(ctx, "examined"):
                ctx.examined.add(hn)
            hps = func_params(hf)
            static = any(isinstance(d, ast.Name) and d.id in ("staticmethod",) for d in hf.decorator_list)
            formal = (hps if static else hps[1:])
            amap = {f_: access_path(a_) for f_, a_ in zip(formal, c.args)}
            hsol = next((f_ for f_, a_ in amap.items() if a_ == sol), None)
            if hsol is None:
                continue
            for hp in Enumerator(loop_counts=(0, 1)).function_paths(hf):
                if hp.outcome != "return" or hp.node.value is None:
                    continue
                rv = hp.node.value
                if isinstance(rv, ast.Constant) and rv.value is not True:
                    continue
                grounds_cost = grounds_design = None
                for e in hp.events:
                    if e.kind == "guard" and e.val and isinstance(e.node, ast.Compare) and len(e.node.ops) == 1 and isinstance(e.node.ops[0], (ast.Eq, ast.Is)):
                        l, r = text(e.node.left), text(e.node.comparators[0])
                        if "costs" in l and "costs" in r and hsol + "." in l + r:
                            grounds_cost = grounds_cost or e.node
                        elif hsol in (access_path(e.node.left), access_path(e.node.comparators[0])) and "costs" not in l + r:
                            grounds_design = grounds_design or e.node
                if not (isinstance(rv, ast.Constant) and rv.value is True):
                    # return <expr>: design equality inside the returned expression
                    if any(isinstance(x, ast.Compare) and hsol in (access_path(x.left), access_path(x.comparators[0])) and "costs" not in text(x) for x in ast.walk(rv)):
                        grounds_design = grounds_design or rv
                    elif any(isinstance(x, ast.Compare) and "costs" in text(x) for x in ast.walk(rv)):
                        grounds_cost = grounds_cost or rv
                if grounds_cost is not None and grounds_design is None:
                    bad = bad or (c, "the member to remove is chosen by %s(), which answers yes when the COSTS are equal (%s) without the designs being the same: another design that reaches "
                                  "the same objective values is taken out of the archive and remove() reports success" % (hn, text(grounds_cost)))
    if bad:
        ctx.violated("R8", C, where(mod, bad[0]), bad[1])
    elif ndel == 0:
        ctx.inconclusive("R8", C, where(mod, fn), "no removal found")
    else:
        ctx.holds("R8", C, where(mod, fn), "the removed member is selected by identity / design equality on every path (%d paths)" % n)


def r7_generate(ctx, repo):
    """GeneticAlgorithm.generate: a child is looked up in the list of offspring and then inserted or skipped.  Between
    the look-up of a child and the decision about it nothing else may be inserted: a look-up made before the sibling
    was appended does not see the sibling, so two identical children are both inserted"""
    from ..paths import Enumerator
    from ..astutil import calls_in, func_params, stmts_of
    if not repo.has_cls("GeneticAlgorithm"):
        return
    cls = repo.cls("GeneticAlgorithm")
    mod = cls.module
    fn = cls.methods.get("generate")
    C = "GeneticAlgorithm.generate"
    if fn is None:
        ctx.inconclusive("R7", C, where(mod, cls.node), "generate() not found")
        return
    loops = [s_ for s_ in fn.body if isinstance(s_, (ast.While, ast.For))]
    if len(loops) != 1:
        ctx.inconclusive("R7", C, where(mod, fn), "offspring loop not recognised")
        return
    lp = loops[0]
    # the offspring list: the list that is appended to inside the loop and returned
    apps = [c for c in calls_in(lp) if isinstance(c.func, ast.Attribute) and c.func.attr == "append" and isinstance(c.func.value, ast.Name) and c.args
            and isinstance(c.args[0], ast.Name)]
    lists = {c.func.value.id for c in apps}
    if len(lists) != 1:
        ctx.inconclusive("R7", C, where(mod, lp), "offspring list not recognised")
        return
    L = next(iter(lists))
    children = {c.args[0].id for c in apps}

    def lookups(node):
        """children looked up in L by the expression/statement"""
        out = set()
        for n in ast.walk(node):
            if isinstance(n, ast.Compare) and len(n.ops) == 1:
                a, b = n.left, n.comparators[0]
                if isinstance(n.ops[0], (ast.In, ast.NotIn)) and isinstance(a, ast.Name) and a.id in children and access_path(b) == L:
                    out.add(a.id)
            if isinstance(n, (ast.GeneratorExp, ast.ListComp)) and len(n.generators) == 1 and access_path(n.generators[0].iter) == L \
                    and isinstance(n.elt, ast.Compare) and len(n.elt.ops) == 1 and isinstance(n.elt.ops[0], (ast.Eq, ast.NotEq)):
                for x in (n.elt.left, n.elt.comparators[0]):
                    if isinstance(x, ast.Name) and x.id in children:
                        out.add(x.id)
            if isinstance(n, ast.Call) and isinstance(n.func, ast.Attribute) and n.func.attr in ("count", "index") and access_path(n.func.value) == L and n.args \
                    and isinstance(n.args[0], ast.Name) and n.args[0].id in children:
                out.add(n.args[0].id)
        return out
    from .c02 import body_fn
    bad = None
    n = 0
    for p in Enumerator(loop_counts=(0, 1)).function_paths(body_fn(lp.body, fn.args, lp.lineno)):
        if p.outcome == "raise":
            continue
        n += 1
        looked = {}        # child -> index of its latest look-up
        inserted = []      # (index, child)
        for i, e in enumerate(p.events):
            node = e.node
            if node is None:
                continue
            if e.kind in ("guard",) or (e.kind == "stmt" and not isinstance(node, (ast.For, ast.While))):
                for ch in lookups(node):
                    looked[ch] = i
            if e.kind == "stmt":
                for c in calls_in(node):
                    if isinstance(c.func, ast.Attribute) and c.func.attr == "append" and access_path(c.func.value) == L and c.args and isinstance(c.args[0], ast.Name):
                        ch = c.args[0].id
                        if ch in looked:
                            between = [x for j, x in inserted if j > looked[ch] and x != ch]
                            if between:
                                bad = bad or (node, "%s is looked up in %s before %s is appended and inserted afterwards on the strength of that look-up (path [%s]): "
                                                    "two children with identical coordinates are both inserted, the repeated design is not identified"
                                                    % (ch, L, between[0], p.describe(6)))
                        inserted.append((i, ch))
    if bad:
        ctx.violated("R7", C, where(mod, bad[0]), bad[1])
    elif n:
        ctx.holds("R7", C, where(mod, lp), "on all %d paths of one mating no child is inserted on a look-up that is older than the latest insertion" % n)
    else:
        ctx.inconclusive("R7", C, where(mod, lp), "no path through the mating loop")


def run(ctx):
    repo = ctx.repo
    ctx.rule("R1", "__eq__ returns True iff every coordinate difference is zero (automaton over letters Z/P/N; iteration domain [0,len))")
    ctx.rule("R2", "symmetry: both signs of a difference give False")
    ctx.rule("R3", "__hash__ defined with __eq__ and a function of the vector only")
    ctx.rule("R4", "tolerance literals within (0, 1e-10]")
    ctx.rule("R5", "evidence: sites relying on ==/hash of Individual")
    ctx.assume("vectors of equal length n >= 1 with finite float coordinates; a 'difference' is either exactly zero or larger than every tolerance literal")
    base = repo.cls("Individual", "individual")
    mod = base.module
    if "__eq__" not in base.methods:
        raise AnalysisError("Individual.__eq__ not found (anchor artap/individual.py)")
    classes = [base] + repo.subclasses("Individual")
    n_eq = 0
    for c in classes:
        if "__eq__" in c.methods:
            n_eq += 1
            check_eq(ctx, c.module, c.name, c.methods["__eq__"])
            check_hash(ctx, c.module, c, c.name)
        elif "__hash__" in c.methods:
            check_hash(ctx, c.module, c, c.name)
    ctx.count("classes_in_Individual_hierarchy", len(classes))
    ctx.count("eq_definitions", n_eq)
    # set-based de-duplication "never discards a distinct design": the de-duplication of the truncation step must go
    # through equality AND hash (a set, or a dictionary keyed by the design or its coordinate tuple), never through the hash alone
    ctx.rule("R6", "the de-duplication in nondominated_truncate identifies designs by equality, not by a coarser key")
    from . import c03
    from .c18 import SubCtx
    c03.r2_truncate(SubCtx(ctx, "R6", prefix="de-duplication: "), repo)
    ctx.rule("R7", "offspring generation: every duplicate test is made against the offspring list as it is when the child is inserted")
    r7_generate(ctx, repo)
    ctx.rule("R8", "Archive.remove takes out the same design, not a member with the same costs")
    r8_remove(ctx, repo)
    # R5 evidence: relying sites
    sites = []
    for m in repo.modules.values():
        for n in ast.walk(m.tree):
            if isinstance(n, ast.Call) and isinstance(n.func, ast.Name) and n.func.id == "set" and n.args \
                    and access_path(n.args[0]) in ("population", "individuals", "offsprings"):
                sites.append((where(m, n), text(n)))
            if isinstance(n, ast.Call) and isinstance(n.func, ast.Attribute) and n.func.attr == "remove" \
                    and m.name in ("archive", "operators"):
                sites.append((where(m, n), text(n)))
            if isinstance(n, ast.Compare) and m.name == "algorithm_genetic" and any(isinstance(o, (ast.Eq, ast.In)) for o in n.ops) \
                    and "offspring" in text(n):
                sites.append((where(m, n), text(n)))
    ctx.extra["relying_sites"] = sites
    ctx.holds("R5", "relying-sites", "", "%d sites use ==/hash/remove on Individual objects (listed in evidence)" % len(sites))
