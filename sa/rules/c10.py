"""C10 - the SQLite store round-trips problem and individuals; one row per id, last wins.

R1  writer/reader field tables: for every claimed field (id, vector, costs,
    costs_signed, population_id, custom, features) Individual.to_dict writes
    key k from attribute k (whole value, no slicing, individuals replaced by
    ids) and Individual.from_dict stores dictionary[k] into attribute k.
R2  SQL: the individuals table has a PRIMARY KEY column; the statement used by
    sync_individual and sync_all is an upsert on that key that overwrites the
    payload column, bound to (individual.id, json.dumps(individual.to_dict())).
R3  read_from_datastore selects all four tables and rebuilds individuals
    through from_dict(json.loads(payload)); the problem's name, parameters and
    costs are written by _create_structure and read back; the view class opens
    the store in read mode.
R4  every run() that records individuals or tags generations ends, on every
    normal path, with sync_all() (or a per-individual sync) after the last
    such write; sync_all iterates problem.individuals.
"""
import ast
import re

from ..astutil import text, access_path, access_paths_in, calls_in, func_params, stmts_of, is_const, const_value, method_call, store_targets
from ..loader import where, AnalysisError
from ..paths import Enumerator, TooManyPaths
from ..terms import Terms, PathEnv
from .c11 import sql_of

FIELDS = ("id", "vector", "costs", "costs_signed", "population_id", "custom", "features")


def r1_fields(ctx, repo, rid="R1", fields=None, helper_rule=True):
    cls = repo.cls("Individual", "individual")
    mod = cls.module
    td, fd = cls.methods.get("to_dict"), cls.methods.get("from_dict")
    if td is None or fd is None:
        raise AnalysisError("Individual.to_dict / from_dict not found")
    selfn = func_params(td)[0]
    # ---- writer table: key -> value term (temporaries and builder loops looked through)
    writer = {}
    outvar = None
    TD = Terms(td)
    retnames = {access_path(r_.value) for r_ in stmts_of(td) if isinstance(r_, ast.Return) and r_.value is not None}
    for s in stmts_of(td):
        if isinstance(s, ast.Assign) and isinstance(s.value, ast.Dict) and len(s.targets) == 1 and isinstance(s.targets[0], ast.Name) \
                and s.targets[0].id in retnames:
            outvar = s.targets[0].id
            for k, v in zip(s.value.keys, s.value.values):
                if isinstance(k, ast.Constant):
                    writer[k.value] = TD.expand(v, at=s)
        elif isinstance(s, ast.Assign) and len(s.targets) == 1 and isinstance(s.targets[0], ast.Subscript) \
                and access_path(s.targets[0].value) == outvar and isinstance(s.targets[0].slice, ast.Constant):
            writer[s.targets[0].slice.value] = TD.expand(s.value, at=s)
    rets = [s for s in stmts_of(td) if isinstance(s, ast.Return)]
    if outvar is None and len(TD.returns) == 1 and isinstance(TD.returns[0][1], ast.Dict):
        # return {...} directly
        outvar = "<returned dict>"
        for k, v in zip(TD.returns[0][1].keys, TD.returns[0][1].values):
            if isinstance(k, ast.Constant):
                writer[k.value] = v
    elif outvar is None or not rets or access_path(rets[-1].value) != outvar:
        ctx.inconclusive(rid, "Individual.to_dict", where(mod, td), "dictionary construction not recognised")
        return

    def data_paths(e):
        """paths of self the value is computed from (receivers of method calls, not the methods)"""
        out = set()

        def rec(n):
            if isinstance(n, ast.Call) and isinstance(n.func, ast.Attribute):
                if access_path(n.func.value) != selfn:
                    rec(n.func.value)
                for a in list(n.args) + [k.value for k in n.keywords]:
                    rec(a)
                return
            p_ = access_path(n)
            if p_ is not None and isinstance(n, (ast.Attribute, ast.Subscript, ast.Name)):
                out.add(p_)
                return
            for c_ in ast.iter_child_nodes(n):
                rec(c_)
        rec(e)
        return out
    # ---- reader table: attr -> key
    reader = {}
    ivar = None
    for s in stmts_of(fd):
        if isinstance(s, ast.Assign) and isinstance(s.value, ast.Call) and (access_path(s.value.func) or "").startswith("Individual"):
            ivar = access_path(s.targets[0])
        if isinstance(s, ast.Assign) and len(s.targets) == 1 and isinstance(s.value, ast.Subscript) \
                and isinstance(s.value.slice, ast.Constant) and access_path(s.value.value) == func_params(fd)[0]:
            t = access_path(s.targets[0]) or ""
            if ivar and t.startswith(ivar + "."):
                reader[t[len(ivar) + 1:]] = (s.value.slice.value, s)
    table = {}
    for f in (fields or FIELDS):
        C = "Individual.to_dict/from_dict[%s]" % f
        w = writer.get(f)
        r = reader.get(f)
        problems = []
        if w is None:
            problems.append("to_dict does not write key '%s'" % f)
        else:
            src = data_paths(w)
            own = {p for p in src if p.startswith(selfn + ".")}
            if isinstance(w, ast.Name):
                # a local the analysis could not look through
                problems = None
            want = selfn + "." + f
            if problems is None:
                table[f] = {"written_from": text(w)}
                ctx.inconclusive(rid, C, where(mod, td), "the value written under key '%s' (%s) is not resolved" % (f, text(w)))
                continue
            base_own = {p.split("[")[0] for p in own}
            # self.f[k] with k ranging over self.f itself is the whole mapping read entry by entry, not a part of it
            walkers = {g.target.id for c_ in ast.walk(w) if isinstance(c_, (ast.ListComp, ast.DictComp, ast.SetComp, ast.GeneratorExp))
                       for g in c_.generators if isinstance(g.target, ast.Name) and access_path(g.iter) == want}
            sliced = [n for n in ast.walk(w) if isinstance(n, ast.Subscript) and access_path(n.value) == want
                      and not (isinstance(n.slice, ast.Name) and n.slice.id in walkers)]
            if want not in base_own and not any(p.startswith(want + ".") for p in base_own):
                problems.append("key '%s' is written from %s, not from self.%s" % (f, sorted(base_own) or text(w), f))
            elif sliced:
                problems.append("key '%s' is written from a slice/element %s of self.%s: part of the value is lost" % (f, text(sliced[0]), f))
            elif len(base_own - {want}) > 0 and not all(p.startswith(want) for p in base_own):
                problems.append("key '%s' mixes self.%s with %s" % (f, f, sorted(base_own - {want})))
            elif f == "custom":
                # user data of arbitrary nesting: a walker that rebuilds every iterable as the list of its items turns a
                # dictionary inside it into the list of its keys
                walker = cls.methods.get("_replace_individual_id")
                through = [c_ for c_ in ast.walk(w) if isinstance(c_, ast.Call) and (access_path(c_.func) or "").endswith("._replace_individual_id")
                           and c_.args and any(p_ == want or p_.startswith(want + "[") or p_.startswith(want + ".") for p_ in access_paths_in(c_.args[0]))]
                if through and walker is not None and _flattens_dicts(walker):
                    problems.append("key 'custom' is written through %s, which rebuilds every iterable as the list of its items: a dictionary nested in the custom data is stored as "
                                    "the list of its keys" % text(through[0].func))
        if r is None:
            problems.append("from_dict does not restore attribute '%s'" % f)
        elif r[0] != f:
            problems.append("from_dict restores attribute '%s' from key '%s'" % (f, r[0]))
        table[f] = {"written_from": text(w) if w is not None else None, "read_from_key": r[0] if r else None}
        if problems is None:
            ctx.inconclusive(rid, C, where(mod, td), "the value written under key '%s' (%s) is not resolved" % (f, text(w)))
        elif problems:
            ctx.violated(rid, C, where(mod, (r[1] if r else td)), "; ".join(problems))
        else:
            ctx.holds(rid, C, where(mod, td), "written from self.%s under key '%s', restored to .%s" % (f, f, f))
    ctx.extra["field_table"] = table
    if not helper_rule:
        return
    # nested individuals replaced by ids before json.dumps
    helper = cls.methods.get("_replace_individual_id")
    ok = False
    if helper is not None:
        for s in stmts_of(helper):
            if isinstance(s, ast.If) and "isinstance" in text(s.test) and "Individual" in text(s.test):
                rr = [x for x in s.body if isinstance(x, ast.Return)]
                if rr and text(rr[0].value).endswith(".id"):
                    ok = True
    uses = sum(1 for c in calls_in(td) if (access_path(c.func) or "").endswith("._replace_individual_id"))
    ctx.check3(True if (ok and uses >= 3) else (False if (ok and uses < 3) else None), rid, "Individual._replace_individual_id", where(mod, helper or td),
               "nested Individual objects (parents, children, feature values) are replaced by their ids before encoding (%d uses)" % uses,
               "only %d of the three places (parents, children, feature values) replace nested individuals by their ids: json.dumps fails on the others" % uses,
               "id replacement helper not recognised")


def parse_sql(sql):
    s = " ".join(sql.split())
    d = {"raw": s}
    m = re.match(r"CREATE TABLE (IF NOT EXISTS )?(\w+) \((.*)\)(?: WITHOUT ROWID)?;?$", s, re.I)
    if m:
        d["kind"] = "create"
        d["table"] = m.group(2)
        cols = [c.strip() for c in m.group(3).split(",")]
        d["columns"] = [c.split()[0] for c in cols]
        d["pk"] = [c.split()[0] for c in cols if re.search(r"PRIMARY KEY", c, re.I)]
        return d
    m = re.match(r"(INSERT OR REPLACE|INSERT OR IGNORE|INSERT|REPLACE) INTO (\w+) ?\(([^)]*)\) VALUES ?\(([^)]*)\)(.*)$", s, re.I)
    if m:
        d["kind"] = "insert"
        d["verb"] = m.group(1).upper()
        d["table"] = m.group(2)
        d["columns"] = [c.strip() for c in m.group(3).split(",")]
        d["nvalues"] = len([v for v in m.group(4).split(",")])
        tail = m.group(5).strip().rstrip(";").strip()
        d["tail"] = tail
        mc = re.match(r"ON CONFLICT ?\((\w+)\) DO (UPDATE SET (.*)|NOTHING)$", tail, re.I)
        if mc:
            d["conflict_col"] = mc.group(1)
            if mc.group(2).upper().startswith("NOTHING"):
                d["conflict_action"] = "nothing"
            else:
                d["conflict_action"] = "update"
                d["updates"] = dict((a.split("=")[0].strip(), a.split("=")[1].strip()) for a in mc.group(3).split(","))
        return d
    return d


def r2_sql(ctx, repo, cls):
    mod = cls.module
    C = "SqliteDataStore(sql)"
    create = upsert = None
    for k, v in cls.class_attrs.items():
        if isinstance(v, ast.Constant) and isinstance(v.value, str):
            d = parse_sql(v.value)
            if d.get("kind") == "create" and d.get("table") == "individuals":
                create = (k, d)
            if d.get("kind") == "insert" and d.get("table") == "individuals":
                upsert = (k, d)
    if create is None or upsert is None:
        raise AnalysisError("SQL for the individuals table (CREATE / INSERT) not found among the class constants")
    pk = create[1]["pk"]
    if len(pk) != 1:
        ctx.violated("R2", C, where(mod, cls.node), "the individuals table has no single PRIMARY KEY column: one row per id is not enforced (%s)" % create[1]["raw"], key="primary-key")
        return
    ctx.holds("R2", C, where(mod, cls.node), "individuals table: PRIMARY KEY(%s), payload column %s" % (pk[0], [c for c in create[1]["columns"] if c != pk[0]]), key="primary-key")
    payload = [c for c in create[1]["columns"] if c != pk[0]]
    u = upsert[1]
    ok = False
    msg = ""
    if u["verb"] in ("INSERT OR REPLACE", "REPLACE") and not u.get("tail"):
        ok = True
    elif u["verb"] == "INSERT" and u.get("conflict_action") == "update" and u.get("conflict_col") == pk[0]:
        upd = u.get("updates", {})
        if all(upd.get(c, "").lower() == "excluded." + c.lower() for c in payload):
            ok = True
        else:
            msg = "the conflict clause does not overwrite the payload column(s) %s with the new value (%s)" % (payload, upd)
    elif u.get("conflict_action") == "nothing" or u["verb"] == "INSERT OR IGNORE":
        msg = "on a repeated id the new row is ignored: the FIRST synchronisation wins, not the last"
    else:
        msg = "plain INSERT without a conflict clause on the primary key: synchronising an individual twice fails / adds nothing (%s)" % u["raw"]
    if u["columns"] != create[1]["columns"] or u["nvalues"] != len(u["columns"]):
        ok, msg = False, "column list %s does not match the table %s" % (u["columns"], create[1]["columns"])
    if ok:
        ctx.holds("R2", C, where(mod, cls.node), "upsert on %s overwriting %s: %s" % (pk[0], payload, u["raw"]), key="upsert")
    else:
        ctx.violated("R2", C, where(mod, cls.node), msg, key="upsert")
    # binding in sync_individual and sync_all
    def pair_ok(a, b):
        iv = (access_path(a) or "").rsplit(".", 1)[0]
        return (access_path(a) or "").endswith(".id") and text(b) == "json.dumps(%s.to_dict())" % iv

    for name in ("sync_individual", "sync_all"):
        fn = cls.methods.get(name)
        if fn is None:
            raise AnalysisError("SqliteDataStore.%s not found" % name)
        ex = [c for c in calls_in(fn) if isinstance(c.func, ast.Attribute) and c.func.attr in ("execute", "executemany")]
        TF = Terms(fn)
        stmt_of = {id(c_): st_ for st_ in stmts_of(fn) if not isinstance(st_, (ast.For, ast.While, ast.If, ast.Try, ast.With)) for c_ in calls_in(st_)}
        verdict, detail = None, "no execute of the upsert found"
        for c in ex:
            if not (c.args and access_path(c.args[0]) and access_path(c.args[0]).endswith("." + upsert[0]) and len(c.args) == 2):
                continue
            if c.func.attr == "execute":
                # the bound pair on every path that reaches this execute, temporaries of the path looked through
                st_c = stmt_of.get(id(c))
                seen_paths = 0
                for p_ in Enumerator(loop_counts=(0, 1)).function_paths(fn):
                    for k_, e_ in enumerate(p_.events):
                        if e_.kind == "stmt" and e_.node is st_c:
                            seen_paths += 1
                            bound = PathEnv(fn, p_.events).expand_at(c.args[1], k_)
                            if isinstance(bound, (ast.List, ast.Tuple)) and len(bound.elts) == 2:
                                a, b = bound.elts
                                if pair_ok(a, b):
                                    verdict = True if verdict is None else verdict
                                elif isinstance(b, ast.Call) and access_path(b.func) == "json.dumps" or (access_path(a) or "").endswith(".id") and isinstance(b, ast.Call):
                                    verdict, detail = False, "bound values are (%s, %s), expected (x.id, json.dumps(x.to_dict()))" % (text(a), text(b))
                                elif verdict is not False:
                                    verdict, detail = None, "bound values (%s, %s) not resolved" % (text(a), text(b))
                            break
                if seen_paths == 0 and verdict is None:
                    detail = "the upsert is not reached on any path"
                continue
            # executemany(upsert, ROWS)
            rows = c.args[1]
            src = rows
            if isinstance(src, ast.Name) and stmt_of.get(id(c)) is not None:
                src = TF.expand(src, at=stmt_of[id(c)])          # rows built in a local first
            while isinstance(src, ast.Call) and access_path(src.func) in ("list", "tuple", "iter") and src.args:
                src = src.args[0]
            if isinstance(src, (ast.ListComp, ast.GeneratorExp)) and len(src.generators) == 1:
                g = src.generators[0]
                if g.ifs:
                    verdict, detail = False, "the batch filters the individuals (%s)" % text(g.ifs[0])
                elif isinstance(src.elt, (ast.Tuple, ast.List)) and len(src.elt.elts) == 2 and pair_ok(*src.elt.elts) \
                        and (access_path(g.iter) or "").endswith(".problem.individuals"):
                    verdict = True
                else:
                    verdict, detail = None, "row construction %s not recognised" % text(src)
            elif isinstance(src, ast.Call) and isinstance(src.func, ast.Attribute) and src.func.attr == "items" and isinstance(src.func.value, ast.Name):
                dname = src.func.value.id
                # rows[x.id] = json.dumps(x.to_dict()) must be assigned unconditionally (the last record of an id wins)
                sets = [s_ for s_ in stmts_of(fn) if isinstance(s_, ast.Assign) and isinstance(s_.targets[0], ast.Subscript) and access_path(s_.targets[0].value) == dname]
                guarded = [s_ for s_ in stmts_of(fn) if isinstance(s_, ast.If) and any(x in stmts_of(s_) for x in sets) and dname in text(s_.test)]
                other_guard = [s_ for lp_ in stmts_of(fn) if isinstance(lp_, ast.For) for s_ in stmts_of(lp_) if isinstance(s_, ast.If) and any(x in stmts_of(s_) for x in sets) and s_ not in guarded]
                guarded = guarded + other_guard
                if len(sets) == 1 and pair_ok(sets[0].targets[0].slice, sets[0].value):
                    if guarded and ("not in %s" % dname) in text(guarded[0].test):
                        verdict, detail = False, "rows are collected per id with `%s`: for a repeated id the FIRST record is kept and written, not the last" % text(guarded[0].test)
                    elif guarded:
                        verdict, detail = None, "row collection guarded by %s" % text(guarded[0].test)
                    else:
                        verdict = True
                else:
                    verdict, detail = None, "row dictionary construction not recognised"
            else:
                verdict, detail = None, "rows %s not recognised" % text(rows)
        C2 = "SqliteDataStore.%s" % name
        # a synchronisation adds and replaces rows; a statement that removes rows takes away what an earlier synchronisation
        # had stored (designs written one by one that are no longer in the list being written now)
        from .c11 import sql_of
        for c in ex:
            sql_ = sql_of(cls, c.args[0]) if c.args else None
            if sql_ and re.match(r"\s*(DELETE|DROP|TRUNCATE)\b", sql_, re.I):
                verdict, detail = False, ("%s executes `%s`: every row stored by an earlier synchronisation is removed, and only the individuals in the list written now come back - a "
                                          "design that was synchronised on its own (an offspring cut by the selection, a neighbour point) is no longer returned by a reader"
                                          % (name, " ".join(sql_.split())))
        if verdict is True:
            ctx.holds("R2", C2, where(mod, fn), "writes the upsert bound to (individual.id, json.dumps(individual.to_dict()))", key="binding")
        elif verdict is False:
            ctx.violated("R2", C2, where(mod, fn), detail, key="binding")
        elif ex:
            ctx.inconclusive("R2", C2, where(mod, fn), detail, key="binding")
        else:
            ctx.violated("R2", C2, where(mod, fn), "the upsert statement is never executed", key="binding")
    # every synchronisation really writes: sync_individual (single upsert then commit on every write-mode path) ...
    from . import c11
    from .c18 import SubCtx
    c11.r2_sync(SubCtx(ctx, "R2", prefix="every synchronisation must write the row: "), repo, cls)
    # ... and sync_all: one upsert per recorded individual on every path of the loop body
    fn = cls.methods.get("sync_all")
    for lp_ in [s_ for s_ in stmts_of(fn) if isinstance(s_, ast.For) and (access_path(s_.iter) or "").endswith(".problem.individuals")]:
        fake = ast.FunctionDef(name="b", args=fn.args, body=lp_.body, decorator_list=[], returns=None, type_comment=None, lineno=lp_.lineno, col_offset=0)
        skipped = None
        nb = 0
        has_exec = any(isinstance(c_.func, ast.Attribute) and c_.func.attr == "execute" for c_ in calls_in(lp_))
        for p_ in Enumerator(loop_counts=(0, 1)).function_paths(fake):
            if p_.outcome == "raise":
                continue
            nb += 1
            n_ex = sum(1 for e_ in p_.events if e_.kind == "stmt" for c_ in calls_in(e_.node) if isinstance(c_.func, ast.Attribute) and c_.func.attr == "execute")
            if has_exec and n_ex != 1:
                skipped = skipped or (p_, n_ex)
        if has_exec:
            if skipped:
                ctx.violated("R2", "SqliteDataStore.sync_all", where(mod, lp_), "an individual gets %d upsert(s) on the path [%s] of the loop body (expected exactly one): "
                             "its latest state is not what the store holds afterwards" % (skipped[1], skipped[0].describe(4)), key="write-each")
            else:
                ctx.holds("R2", "SqliteDataStore.sync_all", where(mod, lp_), "exactly one upsert per recorded individual on all %d paths of the loop body" % nb, key="write-each")
    loops = [s for s in stmts_of(fn) if isinstance(s, ast.For)]
    ok = any((access_path(l.iter) or "").endswith(".problem.individuals") for l in loops) or any(
        (access_path(g.iter) or "").endswith(".problem.individuals") and not g.ifs
        for n_ in ast.walk(fn) if isinstance(n_, (ast.ListComp, ast.GeneratorExp)) for g in n_.generators)
    ctx.check(ok, "R4", "SqliteDataStore.sync_all", where(mod, fn), "iterates problem.individuals (every recorded individual is written)", key="sync-all-domain")
    commits = [c for c in calls_in(fn) if isinstance(c.func, ast.Attribute) and c.func.attr == "commit"]
    ctx.check(bool(commits), "R4", "SqliteDataStore.sync_all", where(mod, fn), "commits after writing", key="sync-all-commit")


def _flattens_dicts(fn):
    """the walker has a branch for iterables that returns a list built by iterating its argument, and no earlier branch
    that takes dictionaries / mappings out"""
    arg = func_params(fn)[1] if len(func_params(fn)) > 1 else None
    if arg is None:
        return False
    for p in Enumerator(loop_counts=(0, 1)).function_paths(fn):
        if p.outcome == "raise":
            continue
        dict_out = False
        iter_in = False
        for e in p.events:
            if e.kind == "guard":
                t = text(e.node)
                if "isinstance(%s" % arg in t and ("dict" in t or "Mapping" in t):
                    dict_out = dict_out or not e.val or e.val       # the path has looked at dict-ness: not the blind branch
                elif "isinstance(%s" % arg in t and "Iterable" in t and e.val:
                    iter_in = True
            elif e.kind in ("iter",) and iter_in and not dict_out and isinstance(e.node, ast.For) and access_path(e.node.iter) == arg:
                return True
            elif e.kind == "return" and iter_in and not dict_out and e.node.value is not None:
                for c_ in ast.walk(e.node.value):
                    if isinstance(c_, (ast.ListComp, ast.GeneratorExp)) and any(access_path(g.iter) == arg for g in c_.generators):
                        return True
    return False


def r3_read(ctx, repo, cls):
    mod = cls.module
    fn = cls.methods.get("read_from_datastore")
    if fn is None:
        raise AnalysisError("SqliteDataStore.read_from_datastore not found")
    C = "SqliteDataStore.read_from_datastore"
    tables = set()
    for c in calls_in(fn):
        if isinstance(c.func, ast.Attribute) and c.func.attr == "execute" and c.args:
            sql = sql_of(cls, c.args[0])
            if sql:
                m = re.search(r"SELECT \* FROM (\w+)", sql, re.I)
                if m:
                    tables.add(m.group(1))
    n_exec = sum(1 for c in calls_in(fn) if isinstance(c.func, ast.Attribute) and c.func.attr == "execute")
    need = {"main", "parameters", "costs", "individuals"}
    tstate = True if tables >= need else (False if n_exec == len(tables) else None)    # every execute was understood, yet a table is not read
    ctx.check3(tstate, "R3", C, where(mod, fn), "selects the tables %s" % sorted(tables), "the reader never selects the table(s) %s: that part of the stored problem is not restored" % sorted(need - tables),
               "some SELECT statements are not recognised", key="tables")
    # definitions are restored in the order the rows come back: SELECT without ORDER BY yields insertion (rowid) order
    # only for rowid tables
    for k, v in cls.class_attrs.items():
        if isinstance(v, ast.Constant) and isinstance(v.value, str) and re.match(r"\s*CREATE TABLE", v.value, re.I):
            tname = re.search(r"CREATE TABLE (?:IF NOT EXISTS )?(\w+)", v.value, re.I).group(1)
            if tname in ("parameters", "costs") and re.search(r"WITHOUT\s+ROWID", v.value, re.I):
                sel = [x.value for x in cls.class_attrs.values() if isinstance(x, ast.Constant) and isinstance(x.value, str)
                       and re.search(r"SELECT .* FROM %s\b" % tname, x.value, re.I)]
                if not any(re.search(r"ORDER BY", q, re.I) for q in sel):
                    ctx.violated("R3", "SqliteDataStore(sql)", where(mod, cls.node),
                                 "table `%s` is WITHOUT ROWID and is read without ORDER BY: rows come back in primary-key (name) order, not in declaration order, "
                                 "so the restored %s definitions no longer line up with the positions of vector / costs" % (tname, tname), key="row-order:" + tname)
    rebuild = []
    TR_ = Terms(fn)
    for s_ in stmts_of(fn):
        if isinstance(s_, (ast.For, ast.While, ast.If, ast.Try, ast.With)):
            continue
        for c in calls_in(s_):
            if (access_path(c.func) or "").endswith("Individual.from_dict") and c.args:
                rebuild.append(TR_.expand(c.args[0], at=s_))
    ok = bool(rebuild) and text(rebuild[0]).startswith("json.loads(") and any(
        (access_path(c.func) or "").endswith(".problem.individuals.append") for c in calls_in(fn))
    # the decoder is the plain inverse of json.dumps only without hooks: a hook that rewrites values changes what is read back
    hook_bad = hook_unknown = None
    if ok and isinstance(rebuild[0], ast.Call):
        for kw_ in rebuild[0].keywords:
            if kw_.arg == "parse_constant":
                # called with the tokens 'NaN', 'Infinity', '-Infinity' (what json.dumps writes for non-finite floats)
                v_ = kw_.value
                table = None
                if isinstance(v_, ast.Attribute) and v_.attr in ("get", "__getitem__"):
                    tb = v_.value
                    tnode = cls.class_attrs.get(tb.attr) if isinstance(tb, ast.Attribute) else None
                    if isinstance(tnode, ast.Dict) and all(isinstance(k_, ast.Constant) for k_ in tnode.keys):
                        table = {k_.value: text(x_) for k_, x_ in zip(tnode.keys, tnode.values)}
                if table is not None:
                    want = {"-Infinity": ("-inf", "-math.inf", "-np.inf", "float('-inf')"), "Infinity": ("inf", "math.inf", "np.inf", "float('inf')"),
                            "NaN": ("nan", "math.nan", "np.nan", "float('nan')")}
                    for tok, good in want.items():
                        got = table.get(tok)
                        if got not in good:
                            hook_bad = hook_bad or ("the decoder's parse_constant hook maps the token %s (what json.dumps writes for %s) to %s: a stored %s is not read back as itself"
                                                    % (tok, good[0], got if got is not None else "None (the table has no such key)", good[0]))
                else:
                    hook_unknown = "decoder hook parse_constant=%s not resolved" % text(v_)
            elif kw_.arg in ("object_hook", "object_pairs_hook", "parse_float", "parse_int", "cls"):
                hook_unknown = hook_unknown or "decoder hook %s=%s: what is read back is what the hook makes of the stored value" % (kw_.arg, text(kw_.value))
    if hook_bad:
        ctx.violated("R3", C, where(mod, fn), hook_bad, key="rebuild")
    elif hook_unknown:
        ctx.inconclusive("R3", C, where(mod, fn), hook_unknown, key="rebuild")
    else:
        ctx.check3(True if ok else None, "R3", C, where(mod, fn), "individuals rebuilt through Individual.from_dict(json.loads(payload)) and appended to problem.individuals",
                   unknown_detail="reconstruction of the individuals not recognised", key="rebuild")
    # problem definition: written and read back
    cs = cls.methods.get("_create_structure")
    wrote = text(cs) if cs else ""

    def dumps_each(seq_suffix):
        # for X in <self>.problem.<seq>: ... json.dumps(X) ...
        for lp_ in (stmts_of(cs) if cs else []):
            if isinstance(lp_, ast.For) and isinstance(lp_.target, ast.Name) and (access_path(lp_.iter) or "").endswith(".problem." + seq_suffix):
                if any(access_path(c_.func) == "json.dumps" and c_.args and access_path(c_.args[0]) == lp_.target.id for c_ in calls_in(lp_)):
                    return True
        return False
    okw = ".problem.name" in wrote and ".problem.description" in wrote and dumps_each("parameters") and dumps_each("costs")
    rd = text(fn)
    okr = ".problem.name = " in rd and ".problem.parameters.append(" in rd and ".problem.costs.append(" in rd
    ctx.check3(True if (okw and okr) else None, "R3", "SqliteDataStore(problem definition)", where(mod, cs or fn), "name/description/parameters/costs written by _create_structure and restored by read_from_datastore",
               unknown_detail="writer/reader of the problem definition not recognised", key="problem-definition")
    pv = repo.cls("ProblemViewDataStore", "problem")
    init = pv.methods.get("__init__")
    vstate, vmode = None, None
    for c in calls_in(init):
        if (access_path(c.func) or "") == "SqliteDataStore":
            from ..astutil import call_arg
            ds_init = repo.cls("SqliteDataStore", "datastore").methods.get("__init__")
            ds_ps = func_params(ds_init)[1:] if ds_init is not None else []
            mv = call_arg(c, ds_ps.index("mode") if "mode" in ds_ps else None, "mode")
            md = [mv] if mv is not None else []
            if md and is_const(md[0]):
                vmode = const_value(md[0])
                vstate = vmode == "read"
            elif not md:
                vmode, vstate = "write (the default)", False
    ctx.check3(vstate, "R3", "ProblemViewDataStore.__init__", where(pv.module, init), "the view opens the store in read mode",
               "the read-only view opens the store in mode %r" % (vmode,), "store construction not recognised", key="view-mode")


def r4_runs(ctx, repo):
    n = 0
    for m in repo.modules.values():
        for c in m.classes.values():
            fn = c.methods.get("run")
            if fn is None:
                continue
            src = text(fn)
            if "data_store" not in src and ".problem.individuals.append" not in src:
                continue
            selfn = func_params(fn)[0]
            C = "%s.run" % c.name
            try:
                paths = Enumerator(loop_counts=(0, 1), max_paths=50000).function_paths(fn)
            except TooManyPaths:
                ctx.inconclusive("R4", C, where(m, fn), "too many paths", key="final-sync")
                continue
            n += 1
            bad = None
            npaths = 0
            for p in paths:
                if p.outcome == "raise":
                    continue
                npaths += 1
                dirty = {}     # var -> index of last unsynced write
                tagged = set()
                for i, e in enumerate(p.events):
                    if e.kind == "iter" and isinstance(e.node, ast.For):
                        # loop variable rebinding: pending per-variable dirt stays pending under a generic key
                        for t in [x.id for x in ast.walk(e.node.target) if isinstance(x, ast.Name)]:
                            if t in dirty:
                                v_ = dirty.pop(t)
                                dirty["<%s@%d>" % (t, v_)] = v_
                                if t in tagged:
                                    tagged.add("%s" % t)
                    if e.kind != "stmt":
                        continue
                    s = e.node
                    for t in store_targets(s):
                        tp = access_path(t) or ""
                        if tp.endswith(".population_id") and not tp.startswith(selfn + "."):
                            dirty[tp.rsplit(".", 1)[0]] = i
                            tagged.add(tp.rsplit(".", 1)[0])
                    for cl in calls_in(s):
                        nm = access_path(cl.func) or ""
                        if nm.endswith(".problem.individuals.append") and cl.args:
                            v = access_path(cl.args[0])
                            if v:
                                dirty[v] = i
                        elif nm.endswith(".data_store.sync_all"):
                            dirty.clear()
                        elif nm.endswith(".data_store.sync_individual") and cl.args:
                            dirty.pop(access_path(cl.args[0]), None)
                        elif nm in (selfn + ".evaluate", selfn + ".evaluator.evaluate"):
                            # Job.evaluate stores every design it evaluates on normal return (C11-R1):
                            # a recorded, not yet evaluated design becomes clean
                            for k in [k for k in dirty if k.split("@")[0].strip("<") not in tagged]:
                                dirty.pop(k)
                if dirty:
                    bad = bad or (p, "on the path [%s] %s is recorded/tagged after its last synchronisation and run() returns without sync_all(): the store misses its final data"
                                  % (p.describe(5), sorted(dirty)[0].split("@")[0].strip("<")))
            if bad:
                ctx.violated("R4", C, where(m, fn), bad[1], key="final-sync")
            else:
                ctx.holds("R4", C, where(m, fn), "every recording/tagging is followed by a synchronisation on all %d normal paths" % npaths, key="final-sync")
    ctx.count("store_touching_run_methods", n)
    if n < 15:
        raise AnalysisError("expected at least 15 store-touching run() methods, found %d" % n)


def sqlite_affinity(decl):
    """column affinity by SQLite's rules for a declared type (https://sqlite.org/datatype3.html 3.1)"""
    d = (decl or "").upper()
    if "INT" in d:
        return "INTEGER"
    if "CHAR" in d or "CLOB" in d or "TEXT" in d:
        return "TEXT"
    if "BLOB" in d or d.strip() == "":
        return "BLOB"
    if "REAL" in d or "FLOA" in d or "DOUB" in d:
        return "REAL"
    return "NUMERIC"


def r5_schema(ctx, repo, cls):
    """what is written comes back as it was written only if the column does not convert it: a free-text column (problem
    name, description, parameter / cost names) needs TEXT or BLOB affinity - with NUMERIC / INTEGER / REAL affinity SQLite turns
    a text that looks like a number ('2024', '1e3', '0042') into that number on insert"""
    mod = cls.module
    n = 0
    for k, v in cls.class_attrs.items():
        if not (isinstance(v, ast.Constant) and isinstance(v.value, str)):
            continue
        m = re.match(r"\s*CREATE TABLE (?:IF NOT EXISTS )?(\w+)\s*\((.*)\)\s*(?:WITHOUT\s+ROWID)?\s*;?\s*$", v.value, re.I | re.S)
        if not m:
            continue
        table = m.group(1)
        for col in [c.strip() for c in m.group(2).split(",")]:
            parts = col.split()
            if not parts or parts[0].upper() in ("PRIMARY", "UNIQUE", "CHECK", "FOREIGN", "CONSTRAINT"):
                continue
            cname = parts[0]
            decl = []
            for w in parts[1:]:
                if w.upper() in ("NOT", "NULL", "PRIMARY", "KEY", "UNIQUE", "DEFAULT", "CHECK", "REFERENCES", "COLLATE", "AUTOINCREMENT"):
                    break
                decl.append(w)
            aff = sqlite_affinity(" ".join(decl))
            n += 1
            if cname.lower() in ("name", "description"):
                ctx.check(aff in ("TEXT", "BLOB"), "R5", "SqliteDataStore(%s.%s)" % (table, cname), where(mod, cls.node),
                          ("column %s.%s declared `%s` has %s affinity: text is stored as text" % (table, cname, " ".join(decl), aff)) if aff in ("TEXT", "BLOB") else
                          ("column %s.%s is declared `%s`, which has %s affinity in SQLite: a name that looks like a number ('2024', '1e3', '0042') is converted to that "
                           "number when it is inserted and comes back as an int / float" % (table, cname, " ".join(decl), aff)), key="affinity:%s.%s" % (table, cname))
    if n == 0:
        ctx.inconclusive("R5", "SqliteDataStore(schema)", where(mod, cls.node), "no CREATE TABLE statement recognised", key="affinity")


def run(ctx):
    ctx.rule("R5", "free-text columns have TEXT/BLOB affinity")
    for rid, doc in (("R1", "writer/reader field tables agree for the claimed fields"), ("R2", "primary key + upsert + binding"),
                     ("R3", "reader selects all tables and rebuilds through from_dict; view is read-mode"), ("R4", "run() methods synchronise after the last recording/tagging; sync_all covers problem.individuals")):
        ctx.rule(rid, doc)
    ctx.axiom("json.dumps/loads round-trips finite floats bit-exactly, +-inf as Infinity, np.float64 as float, bool as bool")
    ctx.axiom("SQLite INSERT .. ON CONFLICT(pk) DO UPDATE replaces the payload of the existing row atomically")
    ctx.assume("values that json cannot encode are outside the claim")
    cls = ctx.repo.cls("SqliteDataStore", "datastore")
    r1_fields(ctx, ctx.repo)
    r2_sql(ctx, ctx.repo, cls)
    r3_read(ctx, ctx.repo, cls)
    r4_runs(ctx, ctx.repo)
    r5_schema(ctx, ctx.repo, cls)
