"""Mutant table for selftest.py: realistic breaking edits (expect 'V') and
behaviour-preserving twins (expect 'H'), keyed by property."""

MUTANTS = []


def M(prop, mid, file, old, new, expect="V", **kw):
    d = {"prop": prop, "id": mid, "file": file, "old": old, "new": new, "expect": expect}
    d.update(kw)
    MUTANTS.append(d)


# ---------------------------------------------------------------- C20
EQ = """        diff = 0.0
        for i in range(len(self.vector)):
            diff = max(diff, abs(self.vector[i] - other.vector[i]))
        return diff < 1e-10
"""
M("C20", "overwrite-diff", "individual.py", EQ, """        diff = 1
        for i in range(len(self.vector)):
            diff = abs(self.vector[i] - other.vector[i])
        return diff < 1e-10
""")
M("C20", "range-from-1", "individual.py", "for i in range(len(self.vector)):\n            diff = max", "for i in range(1, len(self.vector)):\n            diff = max")
M("C20", "range-len-minus-1", "individual.py", "for i in range(len(self.vector)):\n            diff = max", "for i in range(len(self.vector) - 1):\n            diff = max")
M("C20", "no-abs", "individual.py", "diff = max(diff, abs(self.vector[i] - other.vector[i]))", "diff = max(diff, self.vector[i] - other.vector[i])")
M("C20", "flipped-test", "individual.py", "return diff < 1e-10", "return diff > 1e-10")
M("C20", "min-for-max", "individual.py", "diff = max(diff, abs(", "diff = min(diff, abs(")
M("C20", "wide-tolerance", "individual.py", "return diff < 1e-10", "return diff < 1e-3")
M("C20", "hash-with-id", "individual.py", "return hash(tuple(self.vector))", "return hash((self.id, tuple(self.vector)))")
M("C20", "hash-removed", "individual.py", "    def __hash__(self):\n        return hash(tuple(self.vector))\n", "")
M("C20", "last-coordinate-only", "individual.py", EQ, "        return abs(self.vector[-1] - other.vector[-1]) < 1e-10\n")
M("C20", "early-exit-inverted", "individual.py", EQ, """        for i in range(len(self.vector)):
            if abs(self.vector[i] - other.vector[i]) < 1e-10:
                return True
        return False
""")
M("C20", "subclass-eq-by-cost", "algorithm_NSGAII.py", "    def copy(self):\n        new_individual = self.__class__(self.vector)\n        new_individual.costs = self.costs",
  "    def __eq__(self, other):\n        return self.costs == other.costs\n\n    def copy(self):\n        new_individual = self.__class__(self.vector)\n        new_individual.costs = self.costs")
# twins
M("C20", "twin-sum", "individual.py", EQ, """        diff = 0.0
        for i in range(len(self.vector)):
            diff += abs(self.vector[i] - other.vector[i])
        return diff < 1e-10
""", "H")
M("C20", "twin-early-exit", "individual.py", EQ, """        for i in range(len(self.vector)):
            if abs(self.vector[i] - other.vector[i]) >= 1e-10:
                return False
        return True
""", "H")
M("C20", "twin-zip", "individual.py", EQ, """        same = True
        for a, b in zip(self.vector, other.vector):
            if abs(a - b) >= 1e-10:
                same = False
        return same
""", "H")
M("C20", "twin-list-eq", "individual.py", EQ, "        return self.vector == other.vector\n", "H")
M("C20", "twin-rename", "individual.py", EQ, """        worst = 0.0
        for k in range(0, len(other.vector)):
            worst = max(abs(other.vector[k] - self.vector[k]), worst)
        return worst < 1e-10
""", "H")
