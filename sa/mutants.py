"""Mutant table for selftest.py: realistic breaking edits (expect 'V') and
behaviour-preserving twins (expect 'H'), keyed by property."""

MUTANTS = []


def M(prop, mid, file, old, new, expect="V", **kw):
    d = {"prop": prop, "id": mid, "file": file, "old": old, "new": new, "expect": expect}
    d.update(kw)
    MUTANTS.append(d)


# ---------------------------------------------------------------- C20
EQ = """        diff = 0.0
        for i in range(len(self.vector)):
            diff = max(diff, abs(self.vector[i] - other.vector[i]))
        return diff < 1e-10
"""
M("C20", "overwrite-diff", "individual.py", EQ, """        diff = 1
        for i in range(len(self.vector)):
            diff = abs(self.vector[i] - other.vector[i])
        return diff < 1e-10
""")
M("C20", "range-from-1", "individual.py", "for i in range(len(self.vector)):\n            diff = max", "for i in range(1, len(self.vector)):\n            diff = max")
M("C20", "range-len-minus-1", "individual.py", "for i in range(len(self.vector)):\n            diff = max", "for i in range(len(self.vector) - 1):\n            diff = max")
M("C20", "no-abs", "individual.py", "diff = max(diff, abs(self.vector[i] - other.vector[i]))", "diff = max(diff, self.vector[i] - other.vector[i])")
M("C20", "flipped-test", "individual.py", "return diff < 1e-10", "return diff > 1e-10")
M("C20", "min-for-max", "individual.py", "diff = max(diff, abs(", "diff = min(diff, abs(")
M("C20", "wide-tolerance", "individual.py", "return diff < 1e-10", "return diff < 1e-3")
M("C20", "hash-with-id", "individual.py", "return hash(tuple(self.vector))", "return hash((self.id, tuple(self.vector)))")
M("C20", "hash-removed", "individual.py", "    def __hash__(self):\n        return hash(tuple(self.vector))\n", "")
M("C20", "last-coordinate-only", "individual.py", EQ, "        return abs(self.vector[-1] - other.vector[-1]) < 1e-10\n")
M("C20", "early-exit-inverted", "individual.py", EQ, """        for i in range(len(self.vector)):
            if abs(self.vector[i] - other.vector[i]) < 1e-10:
                return True
        return False
""")
M("C20", "subclass-eq-by-cost", "algorithm_NSGAII.py", "    def copy(self):\n        new_individual = self.__class__(self.vector)\n        new_individual.costs = self.costs",
  "    def __eq__(self, other):\n        return self.costs == other.costs\n\n    def copy(self):\n        new_individual = self.__class__(self.vector)\n        new_individual.costs = self.costs")
# twins
M("C20", "twin-sum", "individual.py", EQ, """        diff = 0.0
        for i in range(len(self.vector)):
            diff += abs(self.vector[i] - other.vector[i])
        return diff < 1e-10
""", "H")
M("C20", "twin-early-exit", "individual.py", EQ, """        for i in range(len(self.vector)):
            if abs(self.vector[i] - other.vector[i]) >= 1e-10:
                return False
        return True
""", "H")
M("C20", "twin-zip", "individual.py", EQ, """        same = True
        for a, b in zip(self.vector, other.vector):
            if abs(a - b) >= 1e-10:
                same = False
        return same
""", "H")
M("C20", "twin-list-eq", "individual.py", EQ, "        return self.vector == other.vector\n", "H")
M("C20", "twin-rename", "individual.py", EQ, """        worst = 0.0
        for k in range(0, len(other.vector)):
            worst = max(abs(other.vector[k] - self.vector[k]), worst)
        return worst < 1e-10
""", "H")

# ---------------------------------------------------------------- C14
WC_RESET = "                individual.costs_signed.insert(-1, sum(sensitivity))\n\n        self.individuals = []\n        self.to_evaluate = []\n"
M("C14", "wc-no-reset", "operators.py", WC_RESET, "                individual.costs_signed.insert(-1, sum(sensitivity))\n")
M("C14", "wc-reset-one-list", "operators.py", WC_RESET, "                individual.costs_signed.insert(-1, sum(sensitivity))\n\n        self.to_evaluate = []\n")
M("C14", "grad-no-reset", "operators.py", "            #     individual.costs_signed.insert(-1, sensitivity)\n\n        self.individuals = []\n        self.to_evaluate = []\n", "            #     individual.costs_signed.insert(-1, sensitivity)\n\n        self.to_evaluate = []\n")
M("C14", "wc-alias-vector", "operators.py", "                vector = individual.vector.copy()\n                vector[i] += sign * parameter['tol']", "                vector = individual.vector\n                vector[i] += sign * parameter['tol']")
M("C14", "wc-copy-hoisted", "operators.py", "            parameter = parameters[i]\n            for sign in [-1, 1]:\n                vector = individual.vector.copy()\n", "            parameter = parameters[i]\n            vector = individual.vector.copy()\n            for sign in [-1, 1]:\n")
M("C14", "wc-wrong-tol-axis", "operators.py", "            parameter = parameters[i]\n            for sign", "            parameter = parameters[0]\n            for sign")
M("C14", "wc-one-sided", "operators.py", "for sign in [-1, 1]:", "for sign in [1, 1]:")
M("C14", "wc-no-sign", "operators.py", "vector[i] += sign * parameter['tol']", "vector[i] += parameter['tol']")
M("C14", "wc-axis-skip-first", "operators.py", "        self.individuals.append(individual)\n        for i in range(len(individual.vector)):", "        self.individuals.append(individual)\n        for i in range(1, len(individual.vector)):")
M("C14", "wc-children-not-reset", "operators.py", "        parameters = self.algorithm.problem.parameters\n        individual.children = []\n", "        parameters = self.algorithm.problem.parameters\n")
M("C14", "wc-append-marker", "operators.py", "individual.costs_signed.insert(-1, sum(sensitivity))", "individual.costs_signed.append(sum(sensitivity))")
M("C14", "wc-insert-front", "operators.py", "individual.costs_signed.insert(-1, sum(sensitivity))", "individual.costs_signed.insert(0, sum(sensitivity))")
M("C14", "wc-no-abs", "operators.py", "sensitivity.append(abs(individual.costs[0] - child.costs[0]))", "sensitivity.append(individual.costs[0] - child.costs[0])")
M("C14", "wc-second-cost", "operators.py", "sensitivity.append(abs(individual.costs[0] - child.costs[0]))", "sensitivity.append(abs(individual.costs[0] - child.costs[-1]))")
M("C14", "wc-acc-hoisted", "operators.py", "        for individual in self.individuals:\n            sensitivity = []\n", "        sensitivity = []\n        for individual in self.individuals:\n")
M("C14", "wc-signed-missing", "operators.py", "                individual.costs.append(sum(sensitivity))\n                individual.costs_signed.insert(-1, sum(sensitivity))\n", "                individual.costs.append(sum(sensitivity))\n")
M("C14", "grad-backward", "operators.py", "gradient[i] = ((child.costs[0] - individual.costs[0]) / self.delta)", "gradient[i] = ((individual.costs[0] - child.costs[0]) / self.delta)")
M("C14", "grad-divisor", "operators.py", "gradient[i] = ((child.costs[0] - individual.costs[0]) / self.delta)", "gradient[i] = ((child.costs[0] - individual.costs[0]) / 1e-3)")
M("C14", "grad-step", "operators.py", "        self.delta = 1e-4\n", "        self.delta = 1e-3\n")
M("C14", "grad-index-stuck", "operators.py", "                gradient[i] = ((child.costs[0] - individual.costs[0]) / self.delta)\n                i += 1\n", "                gradient[i] = ((child.costs[0] - individual.costs[0]) / self.delta)\n")
M("C14", "grad-eval-twice", "operators.py", "        n_params = len(self.individuals[0].vector)\n        super().evaluate(self.to_evaluate)\n", "        n_params = len(self.individuals[0].vector)\n        super().evaluate(self.to_evaluate)\n        super().evaluate_serial(self.to_evaluate)\n")
M("C14", "grad-children-not-queued", "operators.py", "        self.to_evaluate.append(individual)\n        self.to_evaluate.extend(individual.children)\n\n    def evaluate(self, individuals):\n        # evaluate the designs first", "        self.to_evaluate.append(individual)\n\n    def evaluate(self, individuals):\n        # evaluate the designs first")
M("C14", "grad-neighbours-before-evaluation", "operators.py", "        # evaluate the designs first: a failed evaluation replaces the vector, the neighbours must belong to the final one\n        super().evaluate(individuals)\n", "")
M("C14", "wc-neighbours-before-evaluation", "operators.py", "    def evaluate(self, individuals):\n        super().evaluate(individuals)\n        for individual in individuals:\n            self.add(individual)\n        self.run()\n\n    def evaluate_scalar(self, x):\n        parent_individual", "    def evaluate(self, individuals):\n        for individual in individuals:\n            self.add(individual)\n        self.run()\n\n    def evaluate_scalar(self, x):\n        parent_individual")
M("C14", "wc-run-in-loop", "operators.py", "        for individual in individuals:\n            self.add(individual)\n        self.run()\n\n    def evaluate_scalar(self, x):\n        parent_individual", "        for individual in individuals:\n            self.add(individual)\n            self.run()\n\n    def evaluate_scalar(self, x):\n        parent_individual")
# twins
M("C14", "twin-clear", "operators.py", WC_RESET, "                individual.costs_signed.insert(-1, sum(sensitivity))\n\n        self.individuals = []\n        self.to_evaluate.clear()\n", "H")
M("C14", "twin-inline-tol", "operators.py", "vector[i] += sign * parameter['tol']", "vector[i] += parameters[i]['tol'] * sign", "H")
M("C14", "twin-list-copy", "operators.py", "                vector = individual.vector.copy()\n                vector[i] += sign", "                vector = list(individual.vector)\n                vector[i] += sign", "H")
M("C14", "twin-sum-acc", "operators.py", "            sensitivity = []\n            for child in individual.children:\n                sensitivity.append(abs(individual.costs[0] - child.costs[0]))\n            individual.features['sensitivity'] = sum(sensitivity)\n\n            if len(individual.costs) > self.n:\n                individual.costs[-1] = sum(sensitivity)\n                individual.costs_signed[-2] = sum(sensitivity)\n            else:\n                individual.costs.append(sum(sensitivity))\n                individual.costs_signed.insert(-1, sum(sensitivity))\n",
  "            total = 0.0\n            for child in individual.children:\n                total += abs(child.costs[0] - individual.costs[0])\n            individual.features['sensitivity'] = total\n\n            individual.costs.append(total)\n            individual.costs_signed.insert(-1, total)\n", "H")
M("C14", "twin-enumerate", "operators.py", "            i = 0\n            for child in individual.children:\n                gradient[i] = ((child.costs[0] - individual.costs[0]) / self.delta)\n                i += 1\n", "            for i, child in enumerate(individual.children):\n                gradient[i] = (child.costs[0] - individual.costs[0]) / self.delta\n", "H")

# ---------------------------------------------------------------- C19
M("C19", "both-counters", "surrogate.py", "        # evaluate problem\n        value = self.problem.evaluate(individual)\n        # increase counter\n        self.eval_counter += 1\n", "        # evaluate problem\n        value = self.problem.evaluate(individual)\n        # increase counter\n        self.eval_counter += 1\n        self.predict_counter += 1\n")
M("C19", "count-before-none-test", "surrogate.py", "            values = self.problem.predict(individual)\n            if values is not None:\n                # count prediction\n                self.problem.surrogate.predict_counter += 1\n", "            values = self.problem.predict(individual)\n            self.problem.surrogate.predict_counter += 1\n")
M("C19", "untrained-predict", "surrogate.py", 'if self.trained and "predict" in dir(self.problem):', 'if "predict" in dir(self.problem):')
M("C19", "trained-or", "surrogate.py", 'if self.trained and "predict" in dir(self.problem):', 'if self.trained or "predict" in dir(self.problem):')
M("C19", "double-eval", "surrogate.py", "        value = self.problem.evaluate(individual)\n        # increase counter", "        value = self.problem.evaluate(individual)\n        value = self.problem.evaluate(individual)\n        # increase counter")
M("C19", "post-processed", "surrogate.py", "                self.train()\n        return value\n", "                self.train()\n        return list(value)\n")
M("C19", "data-early", "surrogate.py", "        value = self.problem.evaluate(individual)\n        # increase counter\n        self.eval_counter += 1\n        # add training date to surrogate model\n        self.add_data(individual.vector, value)\n", "        self.add_data(individual.vector, None)\n        value = self.problem.evaluate(individual)\n        # increase counter\n        self.eval_counter += 1\n")
M("C19", "data-twice", "surrogate.py", "        self.add_data(individual.vector, value)\n\n        if self.train_step", "        self.add_data(individual.vector, value)\n        self.add_data(individual.vector, value)\n\n        if self.train_step")
M("C19", "data-costs", "surrogate.py", "        self.add_data(individual.vector, value)\n", "        self.add_data(individual.vector, individual.costs)\n")
M("C19", "modulo-before-increment", "surrogate.py", "        value = self.problem.evaluate(individual)\n        # increase counter\n        self.eval_counter += 1\n        # add training date to surrogate model\n        self.add_data(individual.vector, value)\n\n        if self.train_step != -1:\n            if self.eval_counter % self.train_step == 0:\n                # init default regressor\n                if self.regressor is None:\n                    self.init_default_regressor()\n\n                # train model\n                self.train()\n",
  "        value = self.problem.evaluate(individual)\n        # add training date to surrogate model\n        self.add_data(individual.vector, value)\n\n        if self.train_step != -1:\n            if self.eval_counter % self.train_step == 0:\n                # init default regressor\n                if self.regressor is None:\n                    self.init_default_regressor()\n\n                # train model\n                self.train()\n        # increase counter\n        self.eval_counter += 1\n")
M("C19", "train-at-minus-one", "surrogate.py", "        if self.train_step != -1:\n            if self.eval_counter % self.train_step == 0:", "        if True:\n            if self.eval_counter % self.train_step == 0:")
M("C19", "train-not-divisible", "surrogate.py", "if self.eval_counter % self.train_step == 0:", "if self.eval_counter % self.train_step != 0:")
M("C19", "train-every-time", "surrogate.py", "            if self.eval_counter % self.train_step == 0:\n", "            if self.eval_counter % self.train_step == 0 or self.regressor is None:\n")
M("C19", "eval-double-count", "surrogate.py", "    def evaluate(self, individual):\n        self.eval_counter += 1\n        return self.problem.evaluate(individual)", "    def evaluate(self, individual):\n        self.eval_counter += 1\n        self.problem.surrogate.eval_counter += 1\n        return self.problem.evaluate(individual)")
M("C19", "eval-no-count", "surrogate.py", "    def evaluate(self, individual):\n        self.eval_counter += 1\n        return self.problem.evaluate(individual)", "    def evaluate(self, individual):\n        return self.problem.evaluate(individual)")
M("C19", "eval-rounded", "surrogate.py", "    def evaluate(self, individual):\n        self.eval_counter += 1\n        return self.problem.evaluate(individual)", "    def evaluate(self, individual):\n        self.eval_counter += 1\n        return [round(v, 6) for v in self.problem.evaluate(individual)]")
M("C19", "scikit-trained-score", "surrogate_scikit.py", "        self.trained = self.score >= self.score_threshold\n        self.trained = True\n", "        self.trained = self.score >= self.score_threshold\n")
M("C19", "smt-trained-lost", "surrogate_smt.py", "            #    self.lml, self.lml_gradient = self.regressor.log_marginal_likelihood(self.regressor.kernel_.theta, eval_gradient=True)\n\n        self.trained = True\n", "            #    self.lml, self.lml_gradient = self.regressor.log_marginal_likelihood(self.regressor.kernel_.theta, eval_gradient=True)\n")
M("C19", "add-data-swapped", "surrogate.py", "        self.x_data.append(x)\n        self.y_data.append(y)\n", "        self.x_data.append(y)\n        self.y_data.append(x)\n")
M("C19", "skip-eval-when-none", "surrogate.py", "        if values is None:\n            # evaluate model\n            values = self.evaluate_individual(individual)\n", "        if values is None and not self.trained:\n            # evaluate model\n            values = self.evaluate_individual(individual)\n")
# twins
M("C19", "twin-self-counter", "surrogate.py", "self.problem.surrogate.predict_counter += 1", "self.predict_counter += 1", "H")
M("C19", "twin-hasattr", "surrogate.py", 'if self.trained and "predict" in dir(self.problem):', 'if self.trained and hasattr(self.problem, "predict"):', "H")
M("C19", "twin-merged-if", "surrogate.py", "        if self.train_step != -1:\n            if self.eval_counter % self.train_step == 0:\n                # init default regressor\n                if self.regressor is None:\n                    self.init_default_regressor()\n\n                # train model\n                self.train()\n", "        if self.train_step != -1 and self.eval_counter % self.train_step == 0:\n            if self.regressor is None:\n                self.init_default_regressor()\n            self.train()\n", "H")
M("C19", "twin-eval-temp", "surrogate.py", "    def evaluate(self, individual):\n        self.eval_counter += 1\n        return self.problem.evaluate(individual)", "    def evaluate(self, individual):\n        result = self.problem.evaluate(individual)\n        self.eval_counter += 1\n        return result", "H")

# ---------------------------------------------------------------- C06
M("C06", "range-4", "job.py", "for i in range(5):", "for i in range(4):")
M("C06", "range-6", "job.py", "for i in range(5):", "for i in range(6):")
M("C06", "except-exception", "job.py", "except (TimeoutError, RuntimeError) as e:", "except Exception as e:")
M("C06", "except-valueerror-too", "job.py", "except (TimeoutError, RuntimeError) as e:", "except (TimeoutError, RuntimeError, ValueError) as e:")
M("C06", "except-only-runtime", "job.py", "except (TimeoutError, RuntimeError) as e:", "except RuntimeError as e:")
M("C06", "swallow-bare", "job.py", "                print(\"Job: unexpected error:\", sys.exc_info()[0])\n                raise\n", "                print(\"Job: unexpected error:\", sys.exc_info()[0])\n")
M("C06", "failed-after-reroll", "job.py", "                failed_individual = Individual(individual.vector)\n                failed_individual.state = individual.State.FAILED\n                individual.features[\"feasible\"] = False  # TODO: genetic algorithms uses this information, i dont know the correct solution\n                self.problem.failed.append(failed_individual)\n                # in the case of failure generate new random individual\n                # TODO: create different strategies\n                individual.vector = VectorAndNumbers.gen_vector(self.problem.parameters)\n",
  "                individual.features[\"feasible\"] = False\n                individual.vector = VectorAndNumbers.gen_vector(self.problem.parameters)\n                failed_individual = Individual(individual.vector)\n                failed_individual.state = individual.State.FAILED\n                self.problem.failed.append(failed_individual)\n")
M("C06", "failed-alias", "job.py", "self.problem.failed.append(failed_individual)", "self.problem.failed.append(individual)")
M("C06", "no-reroll", "job.py", "                individual.vector = VectorAndNumbers.gen_vector(self.problem.parameters)\n", "")
M("C06", "not-logged", "job.py", "                self.problem.failed.append(failed_individual)\n", "")
M("C06", "evaluated-before-call", "job.py", "            try:\n                costs = self.problem.surrogate.evaluate(individual)\n", "            try:\n                individual.state = individual.State.EVALUATED\n                costs = self.problem.surrogate.evaluate(individual)\n")
M("C06", "break-for-continue", "job.py", "                individual.state = individual.State.EMPTY\n                continue\n", "                individual.state = individual.State.EMPTY\n                break\n")
M("C06", "return-after-failure", "job.py", "                individual.state = individual.State.EMPTY\n                continue\n", "                individual.state = individual.State.EMPTY\n                return\n")
M("C06", "no-final-raise", "job.py", "        raise RuntimeError(\"To many failures has appeared.\")\n", "        print(\"To many failures has appeared.\")\n")
M("C06", "final-raise-valueerror", "job.py", "        raise RuntimeError(\"To many failures has appeared.\")", "        raise ValueError(\"To many failures has appeared.\")")
M("C06", "handler-marks-evaluated", "job.py", "                individual.state = individual.State.EMPTY\n                continue\n", "                individual.state = individual.State.EVALUATED\n                continue\n")
M("C06", "reroll-after-success", "job.py", "                individual.features[\"finish_time\"] = time.time()\n", "                individual.features[\"finish_time\"] = time.time()\n                individual.vector = VectorAndNumbers.gen_vector(self.problem.parameters)\n")
M("C06", "shadowing-handler", "job.py", "            except (TimeoutError, RuntimeError) as e:\n", "            except Exception:\n                raise\n            except (TimeoutError, RuntimeError) as e:\n")
# twins
M("C06", "twin-two-handlers", "job.py", "            except (TimeoutError, RuntimeError) as e:\n                print(\"Job: error:\", e)\n                failed_individual = Individual(individual.vector)\n                failed_individual.state = individual.State.FAILED\n                individual.features[\"feasible\"] = False  # TODO: genetic algorithms uses this information, i dont know the correct solution\n                self.problem.failed.append(failed_individual)\n                # in the case of failure generate new random individual\n                # TODO: create different strategies\n                individual.vector = VectorAndNumbers.gen_vector(self.problem.parameters)\n                individual.state = individual.State.EMPTY\n                continue\n",
  "            except TimeoutError as e:\n                self.problem.failed.append(Individual(individual.vector))\n                individual.vector = VectorAndNumbers.gen_vector(self.problem.parameters)\n                individual.state = individual.State.EMPTY\n                continue\n            except RuntimeError as e:\n                self.problem.failed.append(Individual(individual.vector))\n                individual.vector = VectorAndNumbers.gen_vector(self.problem.parameters)\n                individual.state = individual.State.EMPTY\n                continue\n", "H")
M("C06", "twin-no-bare", "job.py", "            except:\n                print(\"Job: unexpected error:\", sys.exc_info()[0])\n                raise\n", "", "H")
M("C06", "twin-const-bound", "job.py", "for i in range(5):", "for attempt in range(0, 5):", "H")
M("C06", "twin-while-counter", "job.py", "        for i in range(5):\n", "        attempt = 0\n        while attempt < 5:\n            attempt += 1\n", "H")
M("C06", "shared-counter", "job.py", "        for i in range(5):\n", "        self.attempt = 0\n        while self.attempt < 5:\n            self.attempt += 1\n")
M("C06", "while-counter-6", "job.py", "        for i in range(5):\n", "        attempt = 0\n        while attempt <= 5:\n            attempt += 1\n")
M("C19", "train-after-prediction", "surrogate.py", "            if values is not None:\n                # count prediction\n                self.problem.surrogate.predict_counter += 1\n", "            if values is not None:\n                # count prediction\n                self.problem.surrogate.predict_counter += 1\n                self.train()\n")
M("C20", "isclose-relative", "individual.py", EQ, "        for a, b in zip(self.vector, other.vector):\n            if not math.isclose(a, b, abs_tol=1e-10):\n                return False\n        return True\n")
M("C20", "twin-isclose-absolute", "individual.py", EQ, "        for a, b in zip(self.vector, other.vector):\n            if not math.isclose(a, b, rel_tol=0.0, abs_tol=1e-10):\n                return False\n        return True\n", "H")
M("C14", "wc-clipped-neighbour", "operators.py", "                vector[i] += sign * parameter['tol']\n", "                vector[i] = self.clip(vector[i] + sign * parameter['tol'], parameter['bounds'][0], parameter['bounds'][1])\n")

# ---------------------------------------------------------------- C01
P_LOOP = """        for (p_costs, q_costs) in zip(p[:-1], q[:-1]):
            if p_costs > q_costs:
                dominate_q = True
                if dominate_p:
                    return 0
            elif q_costs > p_costs:
                dominate_p = True
                if dominate_q:
                    return 0

        if dominate_q == dominate_p:
            return 0
        elif dominate_p:
            return 1
        else:
            return 2
"""
M("C01", "pareto-flipped-gt", "operators.py", "            if p_costs > q_costs:\n                dominate_q = True\n                if dominate_p:\n                    return 0\n            elif q_costs > p_costs:", "            if p_costs < q_costs:\n                dominate_q = True\n                if dominate_p:\n                    return 0\n            elif q_costs > p_costs:")
M("C01", "pareto-ge", "operators.py", "            if p_costs > q_costs:\n                dominate_q = True\n                if dominate_p:\n                    return 0\n            elif q_costs > p_costs:", "            if p_costs >= q_costs:\n                dominate_q = True\n                if dominate_p:\n                    return 0\n            elif q_costs > p_costs:")
M("C01", "pareto-swapped-returns", "operators.py", "        if dominate_q == dominate_p:\n            return 0\n        elif dominate_p:\n            return 1\n        else:\n            return 2\n", "        if dominate_q == dominate_p:\n            return 0\n        elif dominate_p:\n            return 2\n        else:\n            return 1\n")
M("C01", "pareto-crossed-flags", "operators.py", "            elif q_costs > p_costs:\n                dominate_p = True\n                if dominate_q:\n                    return 0\n\n        if dominate_q == dominate_p:", "            elif q_costs > p_costs:\n                dominate_q = True\n                if dominate_q:\n                    return 0\n\n        if dominate_q == dominate_p:")
M("C01", "pareto-early-return-wrong", "operators.py", "                dominate_p = True\n                if dominate_q:\n                    return 0\n\n        if dominate_q == dominate_p:", "                dominate_p = True\n                if dominate_q:\n                    return 1\n\n        if dominate_q == dominate_p:")
M("C01", "pareto-skip-last-objective", "operators.py", "        for (p_costs, q_costs) in zip(p[:-1], q[:-1]):\n            if p_costs > q_costs:", "        for (p_costs, q_costs) in zip(p[:-2], q[:-2]):\n            if p_costs > q_costs:")
M("C01", "pareto-skip-first-objective", "operators.py", "        for (p_costs, q_costs) in zip(p[:-1], q[:-1]):\n            if p_costs > q_costs:", "        for (p_costs, q_costs) in zip(p[1:-1], q[1:-1]):\n            if p_costs > q_costs:")
M("C01", "pareto-cascade-prefers-nonzero", "operators.py", "        if p[-1] != q[-1]:\n            if p[-1] == 0:\n                return 1  # p dominates\n            elif q[-1] == 0:\n                return 2  # q is dominates, because it has smaller degree in constraint violation\n            elif abs(p[-1]) < abs(q[-1]):\n                return 1  # p is dominates\n            elif abs(q[-1]) < abs(p[-1]):\n                return 2  # q is dominates\n\n        dominate_p = False\n        dominate_q = False\n\n        for (p_costs",
  "        if p[-1] != q[-1]:\n            if p[-1] == 0:\n                return 2  # p dominates\n            elif q[-1] == 0:\n                return 1\n            elif abs(p[-1]) < abs(q[-1]):\n                return 1  # p is dominates\n            elif abs(q[-1]) < abs(p[-1]):\n                return 2  # q is dominates\n\n        dominate_p = False\n        dominate_q = False\n\n        for (p_costs")
M("C01", "pareto-cascade-bigger-wins", "operators.py", "            elif abs(p[-1]) < abs(q[-1]):\n                return 1  # p is dominates\n            elif abs(q[-1]) < abs(p[-1]):\n                return 2  # q is dominates\n\n        dominate_p = False\n        dominate_q = False\n\n        for (p_costs", "            elif abs(p[-1]) > abs(q[-1]):\n                return 1  # p is dominates\n            elif abs(q[-1]) > abs(p[-1]):\n                return 2  # q is dominates\n\n        dominate_p = False\n        dominate_q = False\n\n        for (p_costs")
M("C01", "pareto-no-cascade", "operators.py", "        if p[-1] != q[-1]:\n            if p[-1] == 0:\n                return 1  # p dominates\n            elif q[-1] == 0:\n                return 2  # q is dominates, because it has smaller degree in constraint violation\n            elif abs(p[-1]) < abs(q[-1]):\n                return 1  # p is dominates\n            elif abs(q[-1]) < abs(p[-1]):\n                return 2  # q is dominates\n\n        dominate_p = False\n        dominate_q = False\n\n        for (p_costs", "        dominate_p = False\n        dominate_q = False\n\n        for (p_costs")
M("C01", "eps-floor", "operators.py", "            p_eps = p_costs / epsilon\n            q_eps = q_costs / epsilon\n", "            p_eps = math.floor(p_costs / epsilon)\n            q_eps = math.floor(q_costs / epsilon)\n")
M("C01", "eps-negated-scale", "operators.py", "            p_eps = p_costs / epsilon\n            q_eps = q_costs / epsilon\n", "            p_eps = p_costs / -epsilon\n            q_eps = q_costs / -epsilon\n")
M("C01", "eps-one-side-unscaled", "operators.py", "            p_eps = p_costs / epsilon\n            q_eps = q_costs / epsilon\n", "            p_eps = p_costs / epsilon\n            q_eps = q_costs\n")
M("C01", "eps-tiebreak-zero", "operators.py", "            if dist1 < dist2:\n                return 1\n            else:\n                return 2\n", "            if dist1 < dist2:\n                return 1\n            elif dist2 < dist1:\n                return 2\n            else:\n                return 0\n")
M("C01", "eps-swapped-final", "operators.py", "        elif dominate_p:\n            return 1\n        else:\n            return 2\n\n    def same_box", "        elif dominate_p:\n            return 2\n        else:\n            return 1\n\n    def same_box")
M("C01", "eps-flipped-gt", "operators.py", "            if p_eps > q_eps:\n                dominate_q = True", "            if p_eps < q_eps:\n                dominate_q = True")
M("C01", "eps-shared-cycle", "operators.py", "        for i, (p_costs, q_costs) in enumerate(zip(p[:-1], q[:-1])):\n\n            epsilon = float(self.epsilons[i % len(self.epsilons)])\n            if epsilon == 0:\n                epsilon = 1e-3\n\n            p_eps = p_costs / epsilon\n            q_eps = q_costs / epsilon\n",
  "        epsilons = itertools.cycle([float(eps) if float(eps) != 0 else 1e-3 for eps in self.epsilons])\n        p_scaled = [p_costs / epsilon for p_costs, epsilon in zip(p[:-1], epsilons)]\n        q_scaled = [q_costs / epsilon for q_costs, epsilon in zip(q[:-1], epsilons)]\n        for p_eps, q_eps in zip(p_scaled, q_scaled):\n")
# twins
M("C01", "twin-no-early-return", "operators.py", P_LOOP, """        for (p_costs, q_costs) in zip(p[:-1], q[:-1]):
            if p_costs > q_costs:
                dominate_q = True
            elif q_costs > p_costs:
                dominate_p = True

        if dominate_q == dominate_p:
            return 0
        elif dominate_p:
            return 1
        else:
            return 2
""", "H")
M("C01", "twin-index-loop", "operators.py", P_LOOP, """        for k in range(len(p) - 1):
            if p[k] > q[k]:
                dominate_q = True
                if dominate_p:
                    return 0
            elif p[k] < q[k]:
                dominate_p = True
                if dominate_q:
                    return 0

        if dominate_p and not dominate_q:
            return 1
        if dominate_q and not dominate_p:
            return 2
        return 0
""", "H")
M("C01", "twin-eps-mult", "operators.py", "            p_eps = p_costs / epsilon\n            q_eps = q_costs / epsilon\n", "            inv = 1.0 / epsilon\n            p_eps = p_costs * inv\n            q_eps = q_costs * inv\n", "H")

# ---------------------------------------------------------------- C17
M("C17", "pop-filter-ge", "problem.py", "            if individual.population_id == population_id:\n                individuals.append(individual)", "            if individual.population_id >= population_id:\n                individuals.append(individual)")
M("C17", "pop-filter-ne", "problem.py", "            if individual.population_id == population_id:\n                individuals.append(individual)", "            if individual.population_id != population_id:\n                individuals.append(individual)")
M("C17", "last-pop-min", "problem.py", "            if individual.population_id > max_index:", "            if individual.population_id < max_index:")
M("C17", "results-pop-default-zero", "results.py", "        if population_id == -1:\n            # TODO : last_population returns all the populations instead of last index population\n            individuals = self.problem.last_population()\n        else:", "        if population_id == -1:\n            # TODO : last_population returns all the populations instead of last index population\n            individuals = self.problem.population(0)\n        else:")
M("C17", "sort-before-reorder", "results.py", "            goal_values = self.sort_list(parameter_values, goal_values)\n            parameter_values.sort()\n", "            parameter_values.sort()\n            goal_values = self.sort_list(parameter_values, goal_values)\n")
M("C17", "sort-without-partner", "results.py", "            values_2 = self.sort_list(values_1, values_2)\n            values_1.sort()\n", "            values_1.sort()\n")
M("C17", "partner-not-sorted-keys", "results.py", "            parameter_values = self.sort_list(goal_values, parameter_values)\n            goal_values.sort()\n", "            parameter_values = self.sort_list(goal_values, parameter_values)\n")
M("C17", "sort-list-returns-keys", "results.py", "sorted_list = [x for _, x in sorted(zipped_pairs)]", "sorted_list = [x for x, _ in sorted(zipped_pairs)]")
M("C17", "sort-list-reverse", "results.py", "sorted_list = [x for _, x in sorted(zipped_pairs)]", "sorted_list = [x for _, x in sorted(zipped_pairs, reverse=True)]")
M("C17", "keys-sorted-reverse", "results.py", "            goal_values = self.sort_list(parameter_values, goal_values)\n            parameter_values.sort()\n", "            goal_values = self.sort_list(parameter_values, goal_values)\n            parameter_values.sort(reverse=True)\n")
M("C17", "find-opt-crossed", "results.py", "                min_l = [min(self.problem.individuals, key=lambda x: x.costs[index])]\n        else:\n            if len(self.problem.individuals) > 0:\n                min_l = [max(", "                min_l = [max(self.problem.individuals, key=lambda x: x.costs[index])]\n        else:\n            if len(self.problem.individuals) > 0:\n                min_l = [min(")
M("C17", "find-opt-always-min", "results.py", "                min_l = [max(self.problem.individuals, key=lambda x: x.costs[index])]", "                min_l = [min(self.problem.individuals, key=lambda x: x.costs[index])]")
M("C17", "find-opt-first-cost", "results.py", "                min_l = [max(self.problem.individuals, key=lambda x: x.costs[index])]", "                min_l = [max(self.problem.individuals, key=lambda x: x.costs[0])]")
M("C17", "find-opt-none-is-max", "results.py", "        if criteria == 'minimize' or criteria is None:", "        if criteria == 'minimize':")
M("C17", "gd-axis", "quality_indicator.py", "minimums = np.nanmin(distances, axis=0)", "minimums = np.nanmin(distances, axis=1)")
M("C17", "gd-swapped-args", "quality_indicator.py", "distances = spatial.distance.cdist(reference, computed, metric=norm)", "distances = spatial.distance.cdist(computed, reference, metric=norm)")
M("C17", "gd-divisor", "quality_indicator.py", "return np.sum(minimums) / len(computed)", "return np.sum(minimums) / len(reference)")
M("C17", "eps-inner-max", "quality_indicator.py", "eps_j = min(eps_k, eps_j)", "eps_j = max(eps_k, eps_j)")
M("C17", "eps-outer-min", "quality_indicator.py", "eps = max(eps, eps_j)", "eps = min(eps, eps_j)")
M("C17", "eps-diff-reversed", "quality_indicator.py", "eps_k = max(np.subtract(comp_val, ref_val))", "eps_k = max(np.subtract(ref_val, comp_val))")
M("C17", "eps-loops-swapped", "quality_indicator.py", "    for ref_val in reference:\n        eps_j = np.inf\n        for comp_val in computed:", "    for ref_val in computed:\n        eps_j = np.inf\n        for comp_val in reference:")
M("C17", "eps-start-negative", "quality_indicator.py", "    eps = 0.0\n    for ref_val", "    eps = -np.inf\n    for ref_val")
M("C17", "eps-min-not-reset", "quality_indicator.py", "    eps = 0.0\n    for ref_val in reference:\n        eps_j = np.inf\n", "    eps = 0.0\n    eps_j = np.inf\n    for ref_val in reference:\n")
M("C17", "np-infty", "quality_indicator.py", "eps_j = np.inf\n", "eps_j = np.infty\n")
M("C17", "table-foreign-costs", "results.py", "                out.append(individual.vector + individual.costs)", "                out.append(individual.vector + individuals[0].costs)")
M("C17", "lockstep-conditional", "results.py", "            parameter_values.append(individual.vector[parameter_index])\n            goal_values.append(individual.costs[goal_index])\n", "            parameter_values.append(individual.vector[parameter_index])\n            if individual.costs[goal_index] is not None:\n                goal_values.append(individual.costs[goal_index])\n")
# twins
M("C17", "twin-pop-comprehension", "problem.py", "        individuals = []\n        for individual in self.individuals:\n            if individual.population_id == population_id:\n                individuals.append(individual)\n\n        return individuals\n\n    def last_population", "        return [individual for individual in self.individuals if individual.population_id == population_id]\n\n    def last_population", "H")
M("C17", "twin-gd-mean", "quality_indicator.py", "return np.sum(minimums) / len(computed)", "return np.mean(minimums)", "H")
M("C17", "twin-find-opt-order", "results.py", "        if criteria == 'minimize' or criteria is None:", "        if criteria is None or criteria == 'minimize':", "H")

# ---------------------------------------------------------------- C04
M("C04", "verdicts-crossed", "archive.py", "                if is_dominated_flag == 1:\n                    del self._contents[index - number_of_deleted_solutions]\n                    number_of_deleted_solutions += 1\n                elif is_dominated_flag == 2:", "                if is_dominated_flag == 2:\n                    del self._contents[index - number_of_deleted_solutions]\n                    number_of_deleted_solutions += 1\n                elif is_dominated_flag == 1:")
M("C04", "args-swapped", "archive.py", "self._dominance.compare(individual.costs_signed, current_solution.costs_signed)", "self._dominance.compare(current_solution.costs_signed, individual.costs_signed)")
M("C04", "dup-test-dropped", "archive.py", "                    if individual.costs_signed == current_solution.costs_signed:\n                        is_contained = True\n                        break\n", "                    pass\n")
M("C04", "dup-test-inverted", "archive.py", "if individual.costs_signed == current_solution.costs_signed:", "if individual.costs_signed != current_solution.costs_signed:")
M("C04", "snapshot-dropped", "archive.py", "for index, current_solution in enumerate(list(self._contents)):", "for index, current_solution in enumerate(self._contents):")
M("C04", "counter-not-incremented", "archive.py", "                    del self._contents[index - number_of_deleted_solutions]\n                    number_of_deleted_solutions += 1\n", "                    del self._contents[index - number_of_deleted_solutions]\n")
M("C04", "index-uncorrected", "archive.py", "del self._contents[index - number_of_deleted_solutions]", "del self._contents[index]")
M("C04", "flag-wrong-on-reject", "archive.py", "            self._contents.append(individual)\n            return True\n\n        return False\n", "            self._contents.append(individual)\n            return True\n\n        return True\n")
M("C04", "insert-despite-dominated", "archive.py", "        if not is_dominated and not is_contained:", "        if not is_dominated or not is_contained:")
M("C04", "break-after-delete", "archive.py", "                    number_of_deleted_solutions += 1\n                elif", "                    number_of_deleted_solutions += 1\n                    break\n                elif")
M("C04", "truncate-smallest", "archive.py", "        if larger_preferred:\n            result.reverse()\n", "        if not larger_preferred:\n            result.reverse()\n")
M("C04", "truncate-suffix", "archive.py", "self._contents = result[:size]", "self._contents = result[-size:]")
M("C04", "truncate-other-key", "archive.py", "result = sorted(self._contents, key=lambda x: x.features[getter])", "result = sorted(self._contents, key=lambda x: x.costs[0])")
M("C04", "truncate-size-plus", "archive.py", "self._contents = result[:size]", "self._contents = result[:size + 1]")
M("C04", "append-bypasses-add", "archive.py", "    def append(self, individual):\n        self.add(individual)", "    def append(self, individual):\n        self._contents.append(individual)")
M("C04", "double-append", "archive.py", "        if not is_dominated and not is_contained:\n            self._contents.append(individual)\n            return True", "        if not is_dominated and not is_contained:\n            self._contents.append(individual)\n            self._contents.append(individual)\n            return True")
M("C04", "empty-fast-path-no-flag", "archive.py", "        if len(self._contents) == 0:\n            self._contents.append(individual)\n            return True", "        if len(self._contents) == 0:\n            self._contents.append(individual)\n            return False")
# twins
M("C04", "remove-by-equality", "archive.py", "                    del self._contents[index - number_of_deleted_solutions]\n                    number_of_deleted_solutions += 1\n", "                    self._contents.remove(current_solution)\n")
M("C04", "twin-identity-rebuild", "archive.py", "                    del self._contents[index - number_of_deleted_solutions]\n                    number_of_deleted_solutions += 1\n", "                    self._contents = [m for m in self._contents if m is not current_solution]\n", "H")
M("C04", "twin-sorted-reverse-kw", "archive.py", "        result = sorted(self._contents, key=lambda x: x.features[getter])\n\n        if larger_preferred:\n            result.reverse()\n", "        result = sorted(self._contents, key=lambda x: x.features[getter], reverse=larger_preferred)\n", "H")
M("C04", "twin-slice-copy", "archive.py", "enumerate(list(self._contents))", "enumerate(self._contents[:])", "H")

# ---------------------------------------------------------------- C03
M("C03", "cmp-front-reversed", "operators.py", "        if p.features['front_number'] < q.features['front_number']:\n            return -1\n        elif p.features['front_number'] > q.features['front_number']:\n            return 1", "        if p.features['front_number'] > q.features['front_number']:\n            return -1\n        elif p.features['front_number'] < q.features['front_number']:\n            return 1")
M("C03", "cmp-crowding-ascending", "operators.py", "        if -p.features['crowding_distance'] < -q.features['crowding_distance']:\n            return -1\n        elif -p.features['crowding_distance'] > -q.features['crowding_distance']:\n            return 1", "        if p.features['crowding_distance'] < q.features['crowding_distance']:\n            return -1\n        elif p.features['crowding_distance'] > q.features['crowding_distance']:\n            return 1")
M("C03", "cmp-crowding-ignored", "operators.py", "        if -p.features['crowding_distance'] < -q.features['crowding_distance']:\n            return -1\n        elif -p.features['crowding_distance'] > -q.features['crowding_distance']:\n            return 1\n        else:\n            return 0", "        return 0")
M("C03", "cmp-half-negated", "operators.py", "        if -p.features['crowding_distance'] < -q.features['crowding_distance']:", "        if -p.features['crowding_distance'] < q.features['crowding_distance']:")
M("C03", "truncate-reverse", "operators.py", "result = sorted(population, key=functools.cmp_to_key(nondominated_cmp))", "result = sorted(population, key=functools.cmp_to_key(nondominated_cmp), reverse=True)")
M("C03", "truncate-tail", "operators.py", "    return result[:size]", "    return result[size:]")
M("C03", "truncate-no-set", "operators.py", "    population = list(set(population))\n", "    population = list(population)\n")
M("C03", "truncate-size-minus", "operators.py", "    return result[:size]", "    return result[:size - 1]")
M("C03", "truncate-unsorted", "operators.py", "    return result[:size]", "    return population[:size]")
M("C03", "crowd-overwrite", "operators.py", "front[i].features['crowding_distance'] += distance / max_distance", "front[i].features['crowding_distance'] = distance / max_distance")
M("C03", "crowd-interior-short", "operators.py", "        for i in range(1, n - 1):\n            distance", "        for i in range(2, n - 1):\n            distance")
M("C03", "crowd-interior-long", "operators.py", "        for i in range(1, n - 1):\n            distance", "        for i in range(1, n - 2):\n            distance")
M("C03", "crowd-neighbour-offset", "operators.py", "distance = front[i + 1].costs_signed[dim] - front[i - 1].costs_signed[dim]", "distance = front[i + 1].costs_signed[dim] - front[i].costs_signed[dim]")
M("C03", "crowd-marker-counted", "operators.py", "for dim in range(len(front[0].costs_signed[:-1])):", "for dim in range(len(front[0].costs_signed)):")
M("C03", "crowd-skip-objective", "operators.py", "for dim in range(len(front[0].costs_signed[:-1])):", "for dim in range(1, len(front[0].costs_signed[:-1])):")
M("C03", "crowd-sort-fixed-dim", "operators.py", "front.sort(key=lambda x: x.costs_signed[dim])", "front.sort(key=lambda x: x.costs_signed[0])")
M("C03", "crowd-no-sort", "operators.py", "        front.sort(key=lambda x: x.costs_signed[dim])\n", "")
M("C03", "crowd-one-boundary", "operators.py", "        front[0].features['crowding_distance'] = math.inf\n        front[-1].features['crowding_distance'] = math.inf\n        max_distance", "        front[0].features['crowding_distance'] = math.inf\n        max_distance")
M("C03", "crowd-zero-inside", "operators.py", "    for i in range(len(front)):\n        front[i].features['crowding_distance'] = 0.0\n\n    for dim in range(len(front[0].costs_signed[:-1])):\n", "    for dim in range(len(front[0].costs_signed[:-1])):\n        for i in range(len(front)):\n            front[i].features['crowding_distance'] = 0.0\n")
M("C03", "crowd-no-zero", "operators.py", "    for i in range(len(front)):\n        front[i].features['crowding_distance'] = 0.0\n\n", "")
M("C03", "crowd-wrong-range", "operators.py", "max_distance = front[-1].costs_signed[dim] - front[0].costs_signed[dim]", "max_distance = front[-1].costs_signed[0] - front[0].costs_signed[0]")
M("C03", "crowd-two-not-inf", "operators.py", "    elif n == 2:\n        front[0].features['crowding_distance'] = math.inf\n        front[1].features['crowding_distance'] = math.inf\n        return\n", "    elif n == 2:\n        front[0].features['crowding_distance'] = math.inf\n        front[1].features['crowding_distance'] = 0.0\n        return\n")
M("C03", "tour-worse-front", "operators.py", "            if candidates[0].features['front_number'] < candidates[1].features['front_number']:\n                return candidates[0]", "            if candidates[0].features['front_number'] > candidates[1].features['front_number']:\n                return candidates[0]")
M("C03", "tour-dominated", "operators.py", "            if flag == 1:\n                selected = candidates[0]\n            elif flag == 2:\n                selected = candidates[1]", "            if flag == 1:\n                selected = candidates[1]\n            elif flag == 2:\n                selected = candidates[0]")
M("C03", "tour-args-swapped", "operators.py", "flag = self.dominance.compare(candidates[0].costs_signed, candidates[1].costs_signed)\n\n            if flag == 1:\n                selected = candidates[0]", "flag = self.dominance.compare(candidates[1].costs_signed, candidates[0].costs_signed)\n\n            if flag == 1:\n                selected = candidates[0]")
M("C03", "tour-with-replacement", "operators.py", "candidates = random.sample(individuals, 2)", "candidates = random.choices(individuals, k=2)")
M("C03", "tour-no-front-check", "operators.py", "            if candidates[0].features['front_number'] < candidates[1].features['front_number']:\n                return candidates[0]\n            elif candidates[1].features['front_number'] < candidates[0].features['front_number']:\n                return candidates[1]\n", "")
# twins
M("C03", "twin-key-tuple", "operators.py", "result = sorted(population, key=functools.cmp_to_key(nondominated_cmp))", "result = sorted(population, key=lambda x: (x.features['front_number'], -x.features['crowding_distance']))", "H")
M("C03", "twin-cmp-plain", "operators.py", "        if -p.features['crowding_distance'] < -q.features['crowding_distance']:\n            return -1\n        elif -p.features['crowding_distance'] > -q.features['crowding_distance']:\n            return 1", "        if p.features['crowding_distance'] > q.features['crowding_distance']:\n            return -1\n        elif p.features['crowding_distance'] < q.features['crowding_distance']:\n            return 1", "H")
M("C03", "twin-crowd-len", "operators.py", "for dim in range(len(front[0].costs_signed[:-1])):", "for dim in range(len(front[0].costs_signed) - 1):", "H")

# ---------------------------------------------------------------- C05
M("C05", "guard-dropped", "job.py", "        if individual.state == individual.State.EVALUATED:\n            return\n", "")
M("C05", "guard-inverted", "job.py", "        if individual.state == individual.State.EVALUATED:\n            return\n", "        if individual.state != individual.State.EVALUATED:\n            return\n")
M("C05", "signs-not-applied", "job.py", "individual.calc_signed_costs(self.problem.signs)", "individual.calc_signed_costs([1] * len(costs))")
M("C05", "no-signed-costs", "job.py", "                if self.problem is not None:\n                    individual.calc_signed_costs(self.problem.signs)  # the idea is to make this conversion only once\n", "")
M("C05", "costs-modified", "job.py", "                individual.costs = costs\n", "                individual.costs = [abs(c) for c in costs]\n")
M("C05", "costs-not-stored", "job.py", "                individual.costs = costs\n", "")
M("C05", "evaluated-before-signed", "job.py", "                individual.costs = costs\n                if self.problem is not None:\n                    individual.calc_signed_costs(self.problem.signs)  # the idea is to make this conversion only once\n\n                # set evaluated\n                individual.state = individual.State.EVALUATED\n", "                individual.costs = costs\n                individual.state = individual.State.EVALUATED\n                if self.problem is not None:\n                    individual.calc_signed_costs(self.problem.signs)\n")
M("C05", "double-objective-call", "job.py", "                costs = self.problem.surrogate.evaluate(individual)\n", "                costs = self.problem.surrogate.evaluate(individual)\n                costs = self.problem.surrogate.evaluate(individual)\n")
M("C05", "constraints-hoisted", "job.py", "        for i in range(5):\n            # info\n            individual.features[\"start_time\"] = time.time()\n            t_s = time.time()\n\n            # set in progress\n            individual.state = individual.State.IN_PROGRESS\n\n            # check the constraints\n            constraints = self.problem.evaluate_inequality_constraints(individual.vector)\n", "        constraints = self.problem.evaluate_inequality_constraints(individual.vector)\n        for i in range(5):\n            individual.features[\"start_time\"] = time.time()\n            t_s = time.time()\n            individual.state = individual.State.IN_PROGRESS\n")
M("C05", "feasible-any", "job.py", 'individual.features["feasible"] = all(v < eps for (v) in constraints)', 'individual.features["feasible"] = any(v < eps for (v) in constraints)')
M("C05", "feasible-gt", "job.py", 'individual.features["feasible"] = all(v < eps for (v) in constraints)', 'individual.features["feasible"] = all(v > eps for (v) in constraints)')
M("C05", "feasible-le", "job.py", 'individual.features["feasible"] = all(v < eps for (v) in constraints)', 'individual.features["feasible"] = all(v <= eps for (v) in constraints)')
M("C05", "feasible-eps-shift", "job.py", "                eps = 0.0\n", "                eps = 1e-3\n")
M("C05", "marker-without-not", "individual.py", 'self.costs_signed.append(not self.features["feasible"])', 'self.costs_signed.append(self.features["feasible"])')
M("C05", "marker-first", "individual.py", 'self.costs_signed.append(not self.features["feasible"])', 'self.costs_signed.insert(0, not self.features["feasible"])')
M("C05", "no-rounding", "individual.py", 'lambda x, y: x * np.round(y, decimals=self.features["precision"])', 'lambda x, y: x * y')
M("C05", "no-sign-mult", "individual.py", 'lambda x, y: x * np.round(y, decimals=self.features["precision"])', 'lambda x, y: np.round(y, decimals=self.features["precision"])')
M("C05", "fixed-precision", "individual.py", 'lambda x, y: x * np.round(y, decimals=self.features["precision"])', 'lambda x, y: x * np.round(y, decimals=3)')
M("C05", "signs-swapped", "problem.py", "                if cost['criteria'] == 'minimize':\n                    self.signs.append(1)\n                else:\n                    self.signs.append(-1)", "                if cost['criteria'] == 'minimize':\n                    self.signs.append(-1)\n                else:\n                    self.signs.append(1)")
M("C05", "signs-absent-negative", "problem.py", "            else:\n                self.signs.append(1)\n\n        # clean up", "            else:\n                self.signs.append(-1)\n\n        # clean up")
M("C05", "serial-no-state-test", "operators.py", "            if individual.state == individual.State.EMPTY:\n                individual.costs.append(self.job.evaluate(individual))", "            individual.costs.append(self.job.evaluate(individual))")
M("C05", "scalar-unsigned", "operators.py", "        self.job.evaluate(individual)\n        return individual.costs_signed[0]", "        self.job.evaluate(individual)\n        return individual.costs[0]")
M("C05", "scalar-not-recorded", "operators.py", "        # add to problem\n        self.algorithm.problem.individuals.append(individual)\n\n        self.job.evaluate(individual)", "        self.job.evaluate(individual)")
M("C05", "scalar-double-eval", "operators.py", "        self.job.evaluate(individual)\n        return individual.costs_signed[0]", "        self.job.evaluate(individual)\n        self.job.evaluate(individual.copy())\n        return individual.costs_signed[0]")
M("C05", "sweep-double-evaluate", "algorithm_sweep.py", "        self.evaluate(individuals)\n", "        self.evaluate(individuals)\n        self.evaluate(individuals)\n")
M("C05", "sweep-record-twice", "algorithm_sweep.py", "            self.problem.individuals.append(individual)\n", "            self.problem.individuals.append(individual)\n            self.problem.individuals.append(individual)\n")
M("C05", "nlopt-negated", "algorithm_nlopt.py", "        return self.evaluator.evaluate_scalar(x)", "        return -self.evaluator.evaluate_scalar(x)")
# twins
M("C05", "twin-direct-costs", "job.py", "                costs = self.problem.surrogate.evaluate(individual)\n                individual.costs = costs\n", "                individual.costs = self.problem.surrogate.evaluate(individual)\n", "H")
M("C05", "twin-no-none-test", "job.py", "                if self.problem is not None:\n                    individual.calc_signed_costs(self.problem.signs)  # the idea is to make this conversion only once\n", "                individual.calc_signed_costs(self.problem.signs)\n", "H")
M("C05", "twin-listcomp-signed", "individual.py", 'self.costs_signed = list(map(lambda x, y: x * np.round(y, decimals=self.features["precision"]), p_signs, self.costs))', 'self.costs_signed = [s * np.round(c, decimals=self.features["precision"]) for s, c in zip(p_signs, self.costs)]', "H")
M("C04", "remove-via-method", "archive.py", "                    del self._contents[index - number_of_deleted_solutions]\n                    number_of_deleted_solutions += 1\n", "                    self.remove(current_solution)\n")

# ---------------------------------------------------------------- C18
M("C18", "best-flag-ne-1", "algorithm_swarm.py", "            if flag != 2:\n                particle.features['best_cost']", "            if flag != 1:\n                particle.features['best_cost']")
M("C18", "best-only-if-dominates", "algorithm_swarm.py", "            if flag != 2:\n                particle.features['best_cost']", "            if flag == 1:\n                particle.features['best_cost']")
M("C18", "best-one-field", "algorithm_swarm.py", "                particle.features['best_cost'] = particle.costs_signed\n                particle.features['best_vector'] = particle.vector\n\n    def turbulence", "                particle.features['best_cost'] = particle.costs_signed\n\n    def turbulence")
M("C18", "best-args-swapped", "algorithm_swarm.py", "flag = self.dominance.compare(particle.costs_signed, particle.features['best_cost'])", "flag = self.dominance.compare(particle.features['best_cost'], particle.costs_signed)")
M("C18", "best-always", "algorithm_swarm.py", "            if flag != 2:\n                particle.features['best_cost'] = particle.costs_signed\n                particle.features['best_vector'] = particle.vector", "            particle.features['best_cost'] = particle.costs_signed\n            particle.features['best_vector'] = particle.vector")
M("C18", "clamp-upper-removed", "algorithm_swarm.py", "        velocity = min(velocity, delta_i)\n        velocity = max(velocity, -delta_i)", "        velocity = max(velocity, -delta_i)")
M("C18", "clamp-full-range", "algorithm_swarm.py", "delta_i = (u_bound - l_bound) / 2.", "delta_i = (u_bound - l_bound)")
# max(min(v, d), d) == d: a constant velocity is a defect, but it lies within +-d, which is all the property states
M("C18", "clamp-wrong-sign", "algorithm_swarm.py", "        velocity = max(velocity, -delta_i)", "        velocity = max(velocity, delta_i)", expect="H")
M("C18", "clamp-lower-only", "algorithm_swarm.py", "        velocity = min(velocity, delta_i)\n", "")
M("C18", "clamp-bounds-swapped-call", "algorithm_swarm.py", "individual.features['velocity'][i] = self.speed_constriction(v, ub, lb)", "individual.features['velocity'][i] = self.speed_constriction(v, lb, ub)")
M("C18", "clamp-other-index", "algorithm_swarm.py", "                individual.features['velocity'][i] = self.speed_constriction(v, self.parameters[i]['bounds'][1],\n                                                                             self.parameters[i]['bounds'][0])", "                individual.features['velocity'][i] = self.speed_constriction(v, self.parameters[0]['bounds'][1],\n                                                                             self.parameters[0]['bounds'][0])")
M("C18", "velocity-unclamped", "algorithm_swarm.py", "individual.features['velocity'][i] = self.speed_constriction(v, ub, lb)", "individual.features['velocity'][i] = v")
M("C18", "smpso-factor", "algorithm_swarm.py", "                if individual.vector[i] > parameter['bounds'][1]:\n                    individual.vector[i] = parameter['bounds'][1]\n                    individual.features['velocity'][i] *= 0.001", "                if individual.vector[i] > parameter['bounds'][1]:\n                    individual.vector[i] = parameter['bounds'][1]\n                    individual.features['velocity'][i] *= 0.01")
M("C18", "omopso-no-reverse", "algorithm_swarm.py", "                # adjust minimum position if necessary\n                if individual.vector[i] < parameter['bounds'][0]:\n                    individual.vector[i] = parameter['bounds'][0]\n                    individual.features['velocity'][i] *= -1\n\n    def update_global_best(self, swarm):\n        \"\"\" Manages the leader class in OMOPSO. \"\"\"\n\n        # the fitness of the particles are calculated by their crowding distance\n\n        # crowding_distance(swarm)", "                # adjust minimum position if necessary\n                if individual.vector[i] < parameter['bounds'][0]:\n                    individual.vector[i] = parameter['bounds'][0]\n\n    def update_global_best(self, swarm):\n        \"\"\" Manages the leader class in OMOPSO. \"\"\"\n\n        # the fitness of the particles are calculated by their crowding distance\n\n        # crowding_distance(swarm)")
M("C18", "psoga-wrong-bound", "algorithm_swarm.py", "                if individual.vector[i] > parameter['bounds'][1]:\n                    individual.vector[i] = parameter['bounds'][1]\n                    individual.features['velocity'][i] *= -1\n\n                if individual.vector[i] < parameter['bounds'][0]:", "                if individual.vector[i] > parameter['bounds'][1]:\n                    individual.vector[i] = parameter['bounds'][0]\n                    individual.features['velocity'][i] *= -1\n\n                if individual.vector[i] < parameter['bounds'][0]:")
M("C18", "psoga-lower-test-dropped", "algorithm_swarm.py", "                if individual.vector[i] < parameter['bounds'][0]:\n                    individual.vector[i] = parameter['bounds'][0]\n                    individual.features['velocity'][i] *= -1\n\n            # self.makeinteger(individual.vector)", "            # self.makeinteger(individual.vector)")
M("C18", "smpso-no-truncate", "algorithm_swarm.py", "        self.leaders += swarm\n        self.leaders.truncate(self.options['max_population_size'], 'crowding_distance')\n        # self.problem.archive += swarm", "        self.leaders += swarm\n        # self.problem.archive += swarm")
M("C18", "psoga-truncate-first", "algorithm_swarm.py", "        crowding_distance(swarm)\n\n        self.leaders += swarm\n        self.leaders.truncate(self.options['max_population_size'], 'crowding_distance')\n        return\n\n    def run(self):\n        start", "        crowding_distance(swarm)\n\n        self.leaders.truncate(self.options['max_population_size'], 'crowding_distance')\n        self.leaders += swarm\n        return\n\n    def run(self):\n        start")
M("C18", "omopso-truncate-size", "algorithm_swarm.py", "        self.leaders.truncate(self.options['max_population_size'], 'crowding_distance')\n        self.archive += swarm", "        self.leaders.truncate(2 * self.options['max_population_size'], 'crowding_distance')\n        self.archive += swarm")
M("C18", "leaders-remove-by-equality", "archive.py", "                    del self._contents[index - number_of_deleted_solutions]\n                    number_of_deleted_solutions += 1\n", "                    self.remove(current_solution)\n")
# twins
M("C18", "twin-best-flag-in", "algorithm_swarm.py", "            if flag != 2:\n                particle.features['best_cost']", "            if flag == 0 or flag == 1:\n                particle.features['best_cost']", "H")
M("C18", "twin-clamp-order", "algorithm_swarm.py", "        velocity = min(velocity, delta_i)\n        velocity = max(velocity, -delta_i)", "        velocity = max(velocity, -delta_i)\n        velocity = min(velocity, delta_i)", "H")

# ---------------------------------------------------------------- C11
M("C11", "commit-dropped", "datastore.py", "                c.execute(self.sql_individuals_upsert, [individual.id, json.dumps(individual.to_dict())])\n                conn.commit()\n            except", "                c.execute(self.sql_individuals_upsert, [individual.id, json.dumps(individual.to_dict())])\n            except")
M("C11", "commit-every-tenth", "datastore.py", "                c.execute(self.sql_individuals_upsert, [individual.id, json.dumps(individual.to_dict())])\n                conn.commit()\n            except", "                c.execute(self.sql_individuals_upsert, [individual.id, json.dumps(individual.to_dict())])\n                if individual.id % 10 == 0:\n                    conn.commit()\n            except")
M("C11", "store-before-costs", "job.py", "                costs = self.problem.surrogate.evaluate(individual)\n                individual.costs = costs\n", "                costs = self.problem.surrogate.evaluate(individual)\n                self.problem.data_store.sync_individual(individual)\n                individual.costs = costs\n")
M("C11", "store-before-state", "job.py", "                # set evaluated\n                individual.state = individual.State.EVALUATED\n                # info\n                individual.features[\"finish_time\"] = time.time()\n                # write to store\n                self.problem.data_store.sync_individual(individual)\n                return\n", "                individual.features[\"finish_time\"] = time.time()\n                self.problem.data_store.sync_individual(individual)\n                individual.state = individual.State.EVALUATED\n                return\n")
M("C11", "no-store-call", "job.py", "                # write to store\n                self.problem.data_store.sync_individual(individual)\n                return\n", "                return\n")
M("C11", "journal-off-threadsafe", "datastore.py", "c.execute('PRAGMA journal_mode = ON')", "c.execute('PRAGMA journal_mode = OFF')")
M("C11", "journal-memory-threadsafe", "datastore.py", "c.execute('PRAGMA journal_mode = ON')", "c.execute('PRAGMA journal_mode = MEMORY')")
M("C11", "row-two-statements", "datastore.py", "                c.execute(self.sql_individuals_upsert, [individual.id, json.dumps(individual.to_dict())])\n                conn.commit()\n            except", "                c.execute(\"DELETE FROM individuals WHERE id=?\", [individual.id])\n                conn.commit()\n                c.execute(self.sql_individuals_upsert, [individual.id, json.dumps(individual.to_dict())])\n                conn.commit()\n            except")
M("C11", "error-swallowed", "datastore.py", "            except sqlite3.OperationalError as e:\n                # try again\n                self.sync_individual(individual)", "            except sqlite3.OperationalError as e:\n                pass")
M("C11", "commit-other-connection", "datastore.py", "                c.execute(self.sql_individuals_upsert, [individual.id, json.dumps(individual.to_dict())])\n                conn.commit()\n            except", "                c.execute(self.sql_individuals_upsert, [individual.id, json.dumps(individual.to_dict())])\n                self.conn().commit()\n            except")
M("C11", "structure-no-final-commit", "datastore.py", "            c.execute(self.sql_costs_insert, [cost[\"name\"], json.dumps(cost)])\n        conn.commit()\n", "            c.execute(self.sql_costs_insert, [cost[\"name\"], json.dumps(cost)])\n")
M("C11", "threadsafe-default-off", "datastore.py", "def __init__(self, problem, database_name, mode=\"write\", thread_safe=True):", "def __init__(self, problem, database_name, mode=\"write\", thread_safe=False):")
M("C11", "threadsafe-caches-conn", "datastore.py", "                    conn = sqlite3.connect(self.database_name, isolation_level='Exclusive')\n                    c = conn.cursor()\n                    c.execute('PRAGMA synchronous = 0')\n                    c.execute('PRAGMA journal_mode = ON')\n                    conn.commit()", "                    conn = sqlite3.connect(self.database_name, isolation_level='Exclusive')\n                    self._conn = conn\n                    c = conn.cursor()\n                    c.execute('PRAGMA synchronous = 0')\n                    c.execute('PRAGMA journal_mode = ON')\n                    conn.commit()")
M("C11", "modify-after-store", "job.py", "                self.problem.data_store.sync_individual(individual)\n                return\n", "                self.problem.data_store.sync_individual(individual)\n                individual.costs = list(costs)\n                return\n")
# twins
M("C11", "twin-journal-wal", "datastore.py", "c.execute('PRAGMA journal_mode = ON')", "c.execute('PRAGMA journal_mode = WAL')", "H")
M("C11", "twin-reraise", "datastore.py", "            except sqlite3.OperationalError as e:\n                # try again\n                self.sync_individual(individual)", "            except sqlite3.OperationalError as e:\n                # try again\n                return self.sync_individual(individual)", "H")

# ---------------------------------------------------------------- C10
UPS = 'sql_individuals_upsert = "INSERT INTO individuals (id, individual) VALUES(?,?) ON CONFLICT(id) DO UPDATE SET individual=excluded.individual;"'
M("C10", "no-conflict-clause", "datastore.py", UPS, 'sql_individuals_upsert = "INSERT INTO individuals (id, individual) VALUES(?,?);"')
M("C10", "conflict-do-nothing", "datastore.py", UPS, 'sql_individuals_upsert = "INSERT INTO individuals (id, individual) VALUES(?,?) ON CONFLICT(id) DO NOTHING;"')
M("C10", "insert-or-ignore", "datastore.py", UPS, 'sql_individuals_upsert = "INSERT OR IGNORE INTO individuals (id, individual) VALUES(?,?);"')
M("C10", "update-keeps-old", "datastore.py", UPS, 'sql_individuals_upsert = "INSERT INTO individuals (id, individual) VALUES(?,?) ON CONFLICT(id) DO UPDATE SET individual=individual;"')
M("C10", "no-primary-key", "datastore.py", 'sql_individuals_table = "CREATE TABLE IF NOT EXISTS individuals (id int PRIMARY KEY, individual json not null);"', 'sql_individuals_table = "CREATE TABLE IF NOT EXISTS individuals (id int, individual json not null);"')
M("C10", "field-dropped-writer", "individual.py", "                  'population_id': self.population_id,\n", "")
M("C10", "field-dropped-reader", "individual.py", "        individual.population_id = dictionary['population_id']\n", "")
M("C10", "field-renamed-writer", "individual.py", "                  'costs_signed': self.costs_signed,", "                  'signed_costs': self.costs_signed,")
M("C10", "field-wrong-source", "individual.py", "                  'costs': list(self.costs),", "                  'costs': list(self.costs_signed),")
M("C10", "vector-truncated", "individual.py", "                  'vector': list(self.vector),", "                  'vector': list(self.vector[:-1]),")
M("C10", "reader-crossed", "individual.py", "        individual.costs = dictionary['costs']\n", "        individual.costs = dictionary['costs_signed']\n")
M("C10", "custom-not-restored", "individual.py", "        individual.custom = dictionary['custom']\n", "        individual.custom = {}\n")
M("C10", "features-overwritten-empty", "individual.py", "        output['features'] = features\n", "        output['features'] = {}\n")
M("C10", "bound-wrong-id", "datastore.py", "                c.execute(self.sql_individuals_upsert, [individual.id, json.dumps(individual.to_dict())])\n                conn.commit()", "                c.execute(self.sql_individuals_upsert, [individual.population_id, json.dumps(individual.to_dict())])\n                conn.commit()")
M("C10", "tag-after-sync-nsga", "algorithm_NSGAII.py", "                individual.population_id = it + 2\n                # append to problem\n                self.problem.individuals.append(individual)\n                self.problem.data_store.sync_individual(individual)\n\n\n        t = time.time() - t_s\n        self.problem.logger.info(\"NSGA_II: elapsed time: {} s\".format(t))\n\n        # sync changed individual informations\n        self.problem.data_store.sync_all()\n",
  "                self.problem.individuals.append(individual)\n                self.problem.data_store.sync_individual(individual)\n                individual.population_id = it + 2\n\n        t = time.time() - t_s\n")
M("C10", "sync-all-last-population-only", "datastore.py", "            for individual in self.problem.individuals:\n                c.execute(self.sql_individuals_upsert", "            for individual in self.problem.last_population():\n                c.execute(self.sql_individuals_upsert")
M("C10", "view-write-mode", "problem.py", 'self.data_store = SqliteDataStore(self, database_name=database_name, mode="read")', 'self.data_store = SqliteDataStore(self, database_name=database_name, mode="write")')
M("C10", "reader-skips-costs-table", "datastore.py", "        c.execute(self.sql_costs_select)\n        rows = c.fetchall()\n        for row in rows:\n            cost = json.loads(row[1])\n            self.problem.costs.append(cost)\n", "")
M("C10", "twin-sweep-no-syncall", "algorithm_sweep.py", "        # sync changed individual informations\n        self.problem.data_store.sync_all()\n", "", "H")
M("C10", "omopso-tag-after-last-sync", "algorithm_swarm.py", "            it += 1\n\n        t = time.time() - t_s\n        self.problem.logger.info(\"PSO: elapsed time: {} s\".format(t))\n\n        # sync changed individual informations\n        self.problem.data_store.sync_all()\n\n\nclass SMPSO", "            it += 1\n\n        for individual in individuals:\n            individual.population_id = it\n\n\nclass SMPSO")
# twins
M("C10", "twin-insert-or-replace", "datastore.py", UPS, 'sql_individuals_upsert = "INSERT OR REPLACE INTO individuals (id, individual) VALUES(?,?);"', "H")
M("C10", "twin-nsga-no-syncall-but-per-individual", "algorithm_NSGAII.py", "        # sync changed individual informations\n        self.problem.data_store.sync_all()\n", "", "H")

# ---------------------------------------------------------------- C02
M("C02", "pair-range-from-i", "operators.py", "            for j in range(i + 1, len(individuals)):\n                q = individuals[j]\n                dom = self.comparator", "            for j in range(i, len(individuals)):\n                q = individuals[j]\n                dom = self.comparator")
M("C02", "pair-range-short", "operators.py", "            for j in range(i + 1, len(individuals)):\n                q = individuals[j]\n                dom = self.comparator", "            for j in range(i + 1, len(individuals) - 1):\n                q = individuals[j]\n                dom = self.comparator")
M("C02", "pair-range-skip", "operators.py", "            for j in range(i + 1, len(individuals)):\n                q = individuals[j]\n                dom = self.comparator", "            for j in range(i + 2, len(individuals)):\n                q = individuals[j]\n                dom = self.comparator")
M("C02", "skip-equal-objectives", "operators.py", "                q = individuals[j]\n                dom = self.comparator.compare(p.costs_signed, q.costs_signed)", "                q = individuals[j]\n                if q.costs_signed[:-1] == p.costs_signed[:-1]:\n                    continue\n                dom = self.comparator.compare(p.costs_signed, q.costs_signed)")
M("C02", "verdicts-crossed", "operators.py", "                if dom == 1:\n                    p.features['dominate'].append(q.id)\n                    q.features['domination_counter'] += 1\n                elif dom == 2:", "                if dom == 2:\n                    p.features['dominate'].append(q.id)\n                    q.features['domination_counter'] += 1\n                elif dom == 1:")
M("C02", "counter-wrong-member", "operators.py", "                    p.features['dominate'].append(q.id)\n                    q.features['domination_counter'] += 1\n                elif dom == 2:", "                    p.features['dominate'].append(q.id)\n                    p.features['domination_counter'] += 1\n                elif dom == 2:")
M("C02", "missing-mirror", "operators.py", "                elif dom == 2:\n                    p.features['domination_counter'] += 1\n                    q.features['dominate'].append(p.id)\n", "                elif dom == 2:\n                    p.features['domination_counter'] += 1\n")
M("C02", "args-swapped", "operators.py", "dom = self.comparator.compare(p.costs_signed, q.costs_signed)", "dom = self.comparator.compare(q.costs_signed, p.costs_signed)")
M("C02", "reset-shared-list", "operators.py", "        for individual in individuals:\n            individual.features['domination_counter'] = 0\n            individual.features['front_number'] = None\n            individual.features['dominate'] = []\n", "        shared = []\n        for individual in individuals:\n            individual.features['domination_counter'] = 0\n            individual.features['front_number'] = None\n            individual.features['dominate'] = shared\n")
M("C02", "reset-counter-missing", "operators.py", "            individual.features['domination_counter'] = 0\n            individual.features['front_number'] = None", "            individual.features['front_number'] = None")
M("C02", "zero-test-in-inner", "operators.py", "                    q.features['dominate'].append(p.id)\n\n            # selects the pareto values\n            if p.features['domination_counter'] == 0:\n                p.features['front_number'] = front_number\n                pareto_front[front_number - 1].append(p)\n", "                    q.features['dominate'].append(p.id)\n\n                # selects the pareto values\n                if p.features['domination_counter'] == 0:\n                    p.features['front_number'] = front_number\n                    pareto_front[front_number - 1].append(p)\n")
M("C02", "front-start-zero", "operators.py", "        pareto_front = [[]]\n        front_number = 1\n", "        pareto_front = [[]]\n        front_number = 0\n")
M("C02", "missing-decrement", "operators.py", "                    q.features['domination_counter'] -= 1\n                    if q.features['domination_counter'] == 0 and", "                    if q.features['domination_counter'] == 0 and")
M("C02", "double-decrement", "operators.py", "                    q.features['domination_counter'] -= 1\n                    if q.features['domination_counter'] == 0 and", "                    q.features['domination_counter'] -= 2\n                    if q.features['domination_counter'] == 0 and")
M("C02", "peel-wrong-front", "operators.py", "            for p in pareto_front[front_number - 2]:", "            for p in pareto_front[front_number - 1]:")
M("C02", "rank-off-by-one", "operators.py", "                        q.features['front_number'] = front_number\n                        pareto_front[front_number - 1].append(q)", "                        q.features['front_number'] = front_number - 1\n                        pareto_front[front_number - 1].append(q)")
M("C02", "rank-le-zero", "operators.py", "if q.features['domination_counter'] == 0 and q.features['front_number'] is None:", "if q.features['domination_counter'] <= 1 and q.features['front_number'] is None:")
M("C02", "stray-front-write", "operators.py", "        if len(pareto_front[front_number - 1]) == 0:\n            pareto_front.pop()", "        if len(pareto_front[front_number - 1]) == 0:\n            pareto_front.pop()\n        individuals[0].features['front_number'] = 1")
# twins
M("C02", "twin-no-none-test", "operators.py", "if q.features['domination_counter'] == 0 and q.features['front_number'] is None:", "if q.features['domination_counter'] == 0:", "H")
M("C02", "twin-range-outer", "operators.py", "        for i, p in enumerate(individuals):\n            for j in range(i + 1, len(individuals)):", "        for i in range(len(individuals)):\n            p = individuals[i]\n            for j in range(i + 1, len(individuals)):", "H")

# ---------------------------------------------------------------- C09
M("C09", "nsga-range-G", "algorithm_NSGAII.py", "for it in range(self.options['max_population_number']-1):", "for it in range(self.options['max_population_number']):")
M("C09", "nsga-tag-plus1", "algorithm_NSGAII.py", "individual.population_id = it + 2", "individual.population_id = it + 1")
M("C09", "nsga-initial-tag-0", "algorithm_NSGAII.py", "            individual.population_id = 1\n", "            individual.population_id = 0\n")
M("C09", "nsga-copies-before-eval", "algorithm_NSGAII.py", "            self.evaluate(offsprings)\n\n            for individual in individuals:\n                offsprings.append(individual.copy())\n", "            for individual in individuals:\n                offsprings.append(individual.copy())\n\n            self.evaluate(offsprings)\n")
M("C09", "nsga-truncate-size", "algorithm_NSGAII.py", "individuals = nondominated_truncate(offsprings, self.options['max_population_size'])", "individuals = nondominated_truncate(offsprings, self.options['max_population_size'] + 1)")
M("C09", "nsga-no-parents-in-pool", "algorithm_NSGAII.py", "            for individual in individuals:\n                offsprings.append(individual.copy())\n", "")
M("C09", "nsga-copy-without-costs", "algorithm_NSGAII.py", "        new_individual.costs = self.costs\n        new_individual.costs_signed = self.costs_signed\n", "        new_individual.costs = self.costs\n")
M("C09", "nsga-truncate-before-sort", "algorithm_NSGAII.py", "            self.selector.fast_nondominated_sorting(offsprings)\n\n            # truncate\n            # ToDO: Deside if we want to save removed individuals\n            # individuals, removed = nondominated_truncate(offsprings, self.options['max_population_size'])\n            individuals = nondominated_truncate(offsprings, self.options['max_population_size'])\n", "            individuals = nondominated_truncate(offsprings, self.options['max_population_size'])\n            self.selector.fast_nondominated_sorting(offsprings)\n")
M("C09", "nsga-double-evaluate", "algorithm_NSGAII.py", "            self.evaluate(offsprings)\n\n            for individual in individuals:", "            self.evaluate(offsprings)\n            self.evaluate(individuals)\n\n            for individual in individuals:")
M("C09", "nsga-generator-half", "algorithm_NSGAII.py", "            self.generator.init(self.options['max_population_size'])\n        self.crossover", "            self.generator.init(self.options['max_population_size'] // 2)\n        self.crossover")
M("C09", "nsga-record-offsprings", "algorithm_NSGAII.py", "            individuals = nondominated_truncate(offsprings, self.options['max_population_size'])\n            for individual in individuals:\n", "            individuals = nondominated_truncate(offsprings, self.options['max_population_size'])\n            for individual in offsprings:\n")
M("C09", "generate-no-cap", "algorithm_genetic.py", "            elif len(offsprings) < self.options['max_population_size']:\n                offsprings.append(child2)", "            else:\n                offsprings.append(child2)")
M("C09", "generate-loop-le", "algorithm_genetic.py", "while len(offsprings) < self.options['max_population_size']:", "while len(offsprings) <= self.options['max_population_size']:")
M("C09", "generate-for-children", "algorithm_genetic.py", "            # always create new individual\n            if len(offsprings) == 0:\n                offsprings.append(child1)\n\n            if any(child1 == offspring for offspring in offsprings) and (len(offsprings) < self.options[\n                'max_population_size']):\n                pass\n            else:\n                offsprings.append(child1)\n\n            if any(child2 == offspring for offspring in offsprings) and (len(offsprings) < self.options[\n                'max_population_size']):\n                pass\n            elif len(offsprings) < self.options['max_population_size']:\n                offsprings.append(child2)\n",
  "            for child in (child1, child2):\n                if not any(child == offspring for offspring in offsprings):\n                    offsprings.append(child)\n")
M("C09", "epsmoea-tag-it", "algorithm_genetic.py", "                individual.population_id = it + 1\n", "                individual.population_id = it\n")
M("C09", "epsmoea-range-minus1", "algorithm_genetic.py", "for it in range(self.options['max_population_number']):", "for it in range(self.options['max_population_number'] - 1):")
M("C09", "omopso-while-le", "algorithm_swarm.py", "        it = 0\n        while it < self.options['max_population_number']:\n            offsprings = self.selector.select(individuals)\n\n            self.update_velocity(offsprings)\n            self.update_position(offsprings)\n            self.turbulence(offsprings, it)\n\n            self.evaluate(offsprings)\n\n            self.update_particle_best(offsprings)\n            self.update_global_best(offsprings)\n\n            # update individuals\n            individuals = offsprings\n\n            for individual in individuals:\n                # add to population\n                individual.population_id = it + 1\n                # append to problem\n                self.problem.individuals.append(individual)\n                # sync to datastore\n                self.problem.data_store.sync_individual(individual)\n\n            it += 1\n\n        t = time.time() - t_s\n        self.problem.logger.info(\"PSO: elapsed time: {} s\".format(t))\n\n        # sync changed individual informations\n        self.problem.data_store.sync_all()\n\n\nclass SMPSO",
  "        it = 0\n        while it <= self.options['max_population_number']:\n            offsprings = self.selector.select(individuals)\n\n            self.update_velocity(offsprings)\n            self.update_position(offsprings)\n            self.turbulence(offsprings, it)\n\n            self.evaluate(offsprings)\n\n            self.update_particle_best(offsprings)\n            self.update_global_best(offsprings)\n\n            individuals = offsprings\n\n            for individual in individuals:\n                individual.population_id = it + 1\n                self.problem.individuals.append(individual)\n                self.problem.data_store.sync_individual(individual)\n\n            it += 1\n\n        t = time.time() - t_s\n        self.problem.data_store.sync_all()\n\n\nclass SMPSO")
M("C09", "copy-selector-skips", "operators.py", "        for individual in individuals:\n            candidate = individual.copy()\n            candidate.features = deepcopy(individual.features)\n            selection.append(candidate)", "        for individual in individuals:\n            candidate = individual.copy()\n            candidate.features = deepcopy(individual.features)\n            if candidate not in selection:\n                selection.append(candidate)")
M("C09", "acceptance-evicts-any", "operators.py", "            del individuals[random.choice(dominates)]\n            individuals.append(individual)", "            del individuals[random.randrange(len(individuals))]\n            individuals.append(individual)")
M("C09", "acceptance-grows", "operators.py", "        elif not dominated:\n            individuals.remove(random.choice(individuals))\n            individuals.append(individual)", "        elif not dominated:\n            individuals.append(individual)")
M("C09", "acceptance-accepts-dominated", "operators.py", "        elif not dominated:\n            individuals.remove(random.choice(individuals))", "        else:\n            individuals.remove(random.choice(individuals))")
M("C09", "acceptance-flags-crossed", "operators.py", "            if flag == 1:\n                dominates.append(i)\n            elif flag == 2:\n                dominated = True", "            if flag == 2:\n                dominates.append(i)\n            elif flag == 1:\n                dominated = True")
# twins
M("C09", "twin-omopso-for", "algorithm_swarm.py", "        it = 0\n        while it < self.options['max_population_number']:\n            offsprings = self.selector.select(individuals)\n\n            self.update_velocity(offsprings)\n            self.update_position(offsprings)\n            self.turbulence(offsprings, it)\n\n            self.evaluate(offsprings)\n\n            self.update_particle_best(offsprings)\n            self.update_global_best(offsprings)\n\n            # update individuals\n            individuals = offsprings\n\n            for individual in individuals:\n                # add to population\n                individual.population_id = it + 1\n                # append to problem\n                self.problem.individuals.append(individual)\n                # sync to datastore\n                self.problem.data_store.sync_individual(individual)\n\n            it += 1\n\n        t = time.time() - t_s\n        self.problem.logger.info(\"PSO: elapsed time: {} s\".format(t))\n\n        # sync changed individual informations\n        self.problem.data_store.sync_all()\n\n\nclass SMPSO",
  "        for it in range(self.options['max_population_number']):\n            offsprings = self.selector.select(individuals)\n\n            self.update_velocity(offsprings)\n            self.update_position(offsprings)\n            self.turbulence(offsprings, it)\n\n            self.evaluate(offsprings)\n\n            self.update_particle_best(offsprings)\n            self.update_global_best(offsprings)\n\n            individuals = offsprings\n\n            for individual in individuals:\n                individual.population_id = it + 1\n                self.problem.individuals.append(individual)\n                self.problem.data_store.sync_individual(individual)\n\n        t = time.time() - t_s\n        self.problem.data_store.sync_all()\n\n\nclass SMPSO", "H")

# ---------------------------------------------------------------- C16
M("C16", "dtlz2-sin-index", "benchmark_pareto.py", "                fi *= sin(x[m - i - 1] * pi / 2.)\n            gm = 0.\n", "                fi *= sin(x[m - i] * pi / 2.)\n            gm = 0.\n")
M("C16", "dtlz3-sin-angle", "benchmark_pareto.py", "                fi *= sin(x[m - i - 1] * pi / 2.)\n            # gm = 0.", "                fi *= sin(x[m - i - 1] * pi)\n            # gm = 0.")
M("C16", "dtlz4-cos-alpha", "benchmark_pareto.py", "fi *= cos(0.5 * x[j] ** alpha * pi)", "fi *= cos(0.5 * x[j] * pi)")
M("C16", "dtlz2-product-range", "benchmark_pareto.py", "            for j in range(0, m - i - 1):\n                fi *= cos(0.5 * x[j] * pi)\n\n            if i > 0:\n                fi *= sin(x[m - i - 1] * pi / 2.)\n            gm = 0.\n", "            for j in range(0, m - i):\n                fi *= cos(0.5 * x[j] * pi)\n\n            if i > 0:\n                fi *= sin(x[m - i - 1] * pi / 2.)\n            gm = 0.\n")
M("C16", "dtlz2-complement-guard", "benchmark_pareto.py", "            if i > 0:\n                fi *= sin(x[m - i - 1] * pi / 2.)\n            gm = 0.\n", "            if i > 1:\n                fi *= sin(x[m - i - 1] * pi / 2.)\n            gm = 0.\n")
M("C16", "dtlz2-factor-twice", "benchmark_pareto.py", "            fi *= (1. + gm)\n            scores.append(fi)\n\n        return scores\n\n\nclass DTLZIII", "            fi *= (1. + gm)\n            fi *= (1. + gm)\n            scores.append(fi)\n\n        return scores\n\n\nclass DTLZIII")
M("C16", "dtlz2-g-offset", "benchmark_pareto.py", "                gm += (x[len(x) - i - 1] - 0.5) ** 2.\n            fi *= (1. + gm)\n            scores.append(fi)\n\n        return scores\n\n\nclass DTLZIII", "                gm += (x[len(x) - i - 1] - 0.4) ** 2.\n            fi *= (1. + gm)\n            scores.append(fi)\n\n        return scores\n\n\nclass DTLZIII")
M("C16", "dtlz2-g-wrong-vars", "benchmark_pareto.py", "                gm += (x[len(x) - i - 1] - 0.5) ** 2.\n            fi *= (1. + gm)\n            scores.append(fi)\n\n        return scores\n\n\nclass DTLZIII", "                gm += (x[i] - 0.5) ** 2.\n            fi *= (1. + gm)\n            scores.append(fi)\n\n        return scores\n\n\nclass DTLZIII")
M("C16", "dtlz1-complement", "benchmark_pareto.py", "fi *= (1. - x[m - i - 1])", "fi *= (1. - x[m - i])")
M("C16", "dtlz1-not-complement", "benchmark_pareto.py", "fi *= (1. - x[m - i - 1])", "fi *= (1. + x[m - i - 1])")
M("C16", "dtlz1-factor", "benchmark_pareto.py", "        factor = 0.5 * (1 + g)\n", "        factor = (1 + g)\n")
M("C16", "dtlz1-g-k", "benchmark_pareto.py", "        g = 100 * (k + g)\n", "        g = 100 * (k - 1 + g)\n")
M("C16", "dtlz3-g-start", "benchmark_pareto.py", "            gm = float(k)\n", "            gm = 0.0\n")
M("C16", "zdt1-g-constant", "benchmark_pareto.py", "constant = 9.0 / (len(x.vector) - 1)", "constant = 9.0 / len(x.vector)")
M("C16", "zdt1-g-includes-x1", "benchmark_pareto.py", "g = sum(x.vector) - x.vector[0]", "g = sum(x.vector)")
M("C16", "zdt1-h", "benchmark_pareto.py", "return 1.0 - sqrt(f / g)", "return 1.0 - (f / g) ** 2")
M("C16", "zdt1-f2", "benchmark_pareto.py", "        f2 = h * g\n", "        f2 = h + g\n")
M("C16", "biobj-f2", "benchmark_pareto.py", "f2 = (1 + individual.vector[1]) / individual.vector[0]", "f2 = (1 + individual.vector[1]) / (1 + individual.vector[0])")
M("C16", "dtlz4-mapped-twice", "benchmark_pareto.py", "        x = x.vector\n        scores = []\n        for i in range(0, m):\n            fi = 1.0\n            for j in range(0, m - i - 1):\n                fi *= cos(0.5 * x[j] ** alpha * pi)\n\n            if i > 0:\n                fi *= sin(x[m - i - 1] ** alpha * pi / 2.)", "        x = x.vector\n        xa = [xi ** alpha for xi in x[:m - 1]]\n        scores = []\n        for i in range(0, m):\n            fi = 1.0\n            for j in range(0, m - i - 1):\n                fi *= cos(0.5 * xa[j] ** alpha * pi)\n\n            if i > 0:\n                fi *= sin(xa[m - i - 1] * pi / 2.)")
# twins
M("C16", "twin-dtlz2-angle-form", "benchmark_pareto.py", "                fi *= sin(x[m - i - 1] * pi / 2.)\n            gm = 0.\n", "                fi *= sin(0.5 * pi * x[m - i - 1])\n            gm = 0.\n", "H")
M("C16", "twin-zdt1-order", "benchmark_pareto.py", "        return constant * g + 1.0", "        return 1.0 + g * constant", "H")
M("C16", "twin-dtlz4-mapped", "benchmark_pareto.py", "        x = x.vector\n        scores = []\n        for i in range(0, m):\n            fi = 1.0\n            for j in range(0, m - i - 1):\n                fi *= cos(0.5 * x[j] ** alpha * pi)\n\n            if i > 0:\n                fi *= sin(x[m - i - 1] ** alpha * pi / 2.)", "        x = x.vector\n        xa = [xi ** alpha for xi in x[:m - 1]]\n        scores = []\n        for i in range(0, m):\n            fi = 1.0\n            for j in range(0, m - i - 1):\n                fi *= cos(0.5 * xa[j] * pi)\n\n            if i > 0:\n                fi *= sin(xa[m - i - 1] * pi / 2.)", "H")
M("C17", "find-opt-criteria-before-index", "results.py", "        index = 0  # default - one parameter\n        min_l = []\n        if name:\n            index = self.goal_index(name)\n\n        criteria = None\n        if 'criteria' in self.problem.costs[index]:\n            criteria = self.problem.costs[index]['criteria']\n", "        index = 0  # default - one parameter\n        min_l = []\n        criteria = None\n        if 'criteria' in self.problem.costs[index]:\n            criteria = self.problem.costs[index]['criteria']\n        if name:\n            index = self.goal_index(name)\n")
M("C17", "twin-find-opt-select", "results.py", "        if criteria == 'minimize' or criteria is None:\n            if len(self.problem.individuals) > 0:\n                min_l = [min(self.problem.individuals, key=lambda x: x.costs[index])]\n        else:\n            if len(self.problem.individuals) > 0:\n                min_l = [max(self.problem.individuals, key=lambda x: x.costs[index])]\n\n        # for population in self.problem.populations:\n        opt = min(min_l, key=lambda x: x.costs[index])\n        return opt\n", "        select = min if (criteria == 'minimize' or criteria is None) else max\n        return select(self.problem.individuals, key=lambda x: x.costs[index])\n", "H")

# ---------------------------------------------------------------- C15
M("C15", "sphere-optimum-doc", "benchmark_functions.py", "        self.name = 'Sphere function'\n\n        self.set_dimension(**kwargs)\n        self.parameters = self.generate_paramlist(self.dimension, lb=-5.12, ub=5.12)\n\n        self.global_optimum = 0.", "        self.name = 'Sphere function'\n\n        self.set_dimension(**kwargs)\n        self.parameters = self.generate_paramlist(self.dimension, lb=-5.12, ub=5.12)\n\n        self.global_optimum = 0.5")
M("C15", "booth-coords", "benchmark_functions.py", "        self.global_optimum = 0.0\n        self.global_optimum_coords = [1., 3.]\n        # single objective problem\n        self.costs = [{'name': 'f_1', 'criteria': 'minimize'}]\n\n    def evaluate(self, x):\n        x = x.vector\n        return [(x[0] + 2 * x[1] - 7)", "        self.global_optimum = 0.0\n        self.global_optimum_coords = [3., 1.]\n        # single objective problem\n        self.costs = [{'name': 'f_1', 'criteria': 'minimize'}]\n\n    def evaluate(self, x):\n        x = x.vector\n        return [(x[0] + 2 * x[1] - 7)")
M("C15", "booth-formula", "benchmark_functions.py", "return [(x[0] + 2 * x[1] - 7) ** 2 + (2 * x[0] + x[1] - 5) ** 2]", "return [(x[0] + 2 * x[1] - 7) ** 2 - (2 * x[0] + x[1] - 5) ** 2]")
M("C15", "gramacy-box-zero", "benchmark_functions.py", "self.parameters = [{'name': 'x', 'bounds': [0.5, 2.5]}]", "self.parameters = [{'name': 'x', 'bounds': [0.0, 2.5]}]")
M("C15", "rastrigin-sign", "benchmark_functions.py", "fitness += c ** 2 - (10 * np.cos(2 * np.pi * c))", "fitness += c ** 2 + (10 * np.cos(2 * np.pi * c))")
M("C15", "ackley-sqrt-negative", "benchmark_functions.py", "return [-20.0 * np.exp(-0.2 * np.sqrt(firstSum / n)) - np.exp(secondSum / n) + 20.0 + np.e]", "return [-20.0 * np.exp(-0.2 * np.sqrt(firstSum / n - 1.0)) - np.exp(secondSum / n) + 20.0 + np.e]")
M("C15", "griewank-offset", "benchmark_functions.py", "return [summa - produkt + 1.]", "return [summa - produkt]")
M("C15", "synthetic2d-criteria", "benchmark_robust.py", "        self.robust_optimum = 1.0\n        self.robust_optimum_coords = [3.0, 1.0]\n        # single objective problem\n        self.costs = [{'name': 'f_1', 'criteria': 'maximize'}]", "        self.robust_optimum = 1.0\n        self.robust_optimum_coords = [3.0, 1.0]\n        # single objective problem\n        self.costs = [{'name': 'f_1', 'criteria': 'minimize'}]")
M("C15", "synthetic1d-peak-shift", "benchmark_robust.py", "2. * exp(-(x - 2.75) ** 2. / 0.045)", "2. * exp(-(x - 2.65) ** 2. / 0.045)")
M("C15", "synthetic5d-minimize-again", "benchmark_robust.py", "        self.robust_optimum_coords = [3.0, 1.0, 3.0, 2.0, 5.0]\n        # single objective problem\n        self.costs = [{'name': 'f_1', 'criteria': 'maximize'}]", "        self.robust_optimum_coords = [3.0, 1.0, 3.0, 2.0, 5.0]\n        # single objective problem\n        self.costs = [{'name': 'f_1', 'criteria': 'minimize'}]")
M("C15", "michalewicz-optimum", "benchmark_functions.py", "            self.global_optimum = -1.8013\n", "            self.global_optimum = -1.7013\n")
M("C15", "zakharov-two-costs", "benchmark_functions.py", "        return [f1 + f2 ** 2. + f3 ** 2.]", "        return [f1 + f2 ** 2. + f3 ** 2., f1]")
M("C15", "alpine-float-method", "benchmark_functions.py", "            f1 += np.abs(c * np.sin(c) + 0.1 * c)\n        return [f1]", "            f1 += np.abs(c * np.sin(c) + 0.1 * c)\n        return [f1.item()]")
M("C15", "xinsheyang2-wider-box", "benchmark_functions.py", "self.parameters = self.generate_paramlist(self.dimension, lb=-20.0, ub=20.0)", "self.parameters = self.generate_paramlist(self.dimension, lb=-20.0, ub=2000.0)", "H")
M("C15", "perm-optimum-shift", "benchmark_functions.py", "self.global_optimum_coords = [1. / float(x + 1) for x in range(self.dimension)]\n\n        # single objective problem\n        self.costs = [{'name': 'f_1', 'criteria': 'minimize'}]\n\n    def evaluate(self, x):\n        b = 10", "self.global_optimum_coords = [1. / float(x + 2) for x in range(self.dimension)]\n\n        # single objective problem\n        self.costs = [{'name': 'f_1', 'criteria': 'minimize'}]\n\n    def evaluate(self, x):\n        b = 10")
# twins
M("C15", "twin-sphere-mult", "benchmark_functions.py", "        for c in x:\n            sum += c ** 2.0\n\n        return [sum]", "        for c in x:\n            sum += c * c\n\n        return [sum]", "H")
M("C15", "twin-booth-expanded", "benchmark_functions.py", "return [(x[0] + 2 * x[1] - 7) ** 2 + (2 * x[0] + x[1] - 5) ** 2]", "a = x[0] + 2 * x[1] - 7\n        b = 2 * x[0] + x[1] - 5\n        return [a ** 2 + b ** 2]", "H")
M("C03", "crowd-break-on-flat-objective", "operators.py", "        max_distance = front[-1].costs_signed[dim] - front[0].costs_signed[dim]\n        for i in range(1, n - 1):\n            distance = front[i + 1].costs_signed[dim] - front[i - 1].costs_signed[dim]\n            if max_distance > 0.0:\n                front[i].features['crowding_distance'] += distance / max_distance\n", "        max_distance = front[-1].costs_signed[dim] - front[0].costs_signed[dim]\n        if not max_distance > 0.0:\n            break\n        for i in range(1, n - 1):\n            distance = front[i + 1].costs_signed[dim] - front[i - 1].costs_signed[dim]\n            front[i].features['crowding_distance'] += distance / max_distance\n")
M("C03", "twin-crowd-continue-on-flat-objective", "operators.py", "        max_distance = front[-1].costs_signed[dim] - front[0].costs_signed[dim]\n        for i in range(1, n - 1):\n            distance = front[i + 1].costs_signed[dim] - front[i - 1].costs_signed[dim]\n            if max_distance > 0.0:\n                front[i].features['crowding_distance'] += distance / max_distance\n", "        max_distance = front[-1].costs_signed[dim] - front[0].costs_signed[dim]\n        if not max_distance > 0.0:\n            continue\n        for i in range(1, n - 1):\n            distance = front[i + 1].costs_signed[dim] - front[i - 1].costs_signed[dim]\n            front[i].features['crowding_distance'] += distance / max_distance\n", "H")

# ---------------------------------------------------------------- C08
M("C08", "clip-removed-pm", "operators.py", "        x = x + deltaq * dx\n        x = self.clip(x, lb, ub)\n\n        return x", "        x = x + deltaq * dx\n\n        return x")
M("C08", "clip-swapped-args", "operators.py", "        x = x + deltaq * dx\n        x = self.clip(x, lb, ub)", "        x = x + deltaq * dx\n        x = self.clip(x, ub, lb)")
M("C08", "clip-body-broken", "operators.py", "        return max(min_value, min(value, max_value))", "        return max(min_value, max(value, max_value))")
M("C08", "clip-only-upper", "operators.py", "        return max(min_value, min(value, max_value))", "        return min(value, max_value)")
M("C08", "mutator-other-index-bounds", "operators.py", "                l_b = parameter['bounds'][0]\n                u_b = parameter['bounds'][1]\n                vector.append(self.pm_mutation(parent[i], l_b, u_b))", "                l_b = self.parameters[0]['bounds'][0]\n                u_b = self.parameters[0]['bounds'][1]\n                vector.append(self.pm_mutation(parent[i], l_b, u_b))")
M("C08", "uniform-mutation-unclipped", "operators.py", "        x = x + (random.random() - 0.5) * self.perturbation\n        x = self.clip(x, lb, ub)\n", "        x = x + (random.random() - 0.5) * self.perturbation\n")
M("C08", "nonuniform-early-return", "operators.py", "        if isinstance(x, complex):\n            print(x)\n        x = self.clip(x, lb, ub)", "        if isinstance(x, complex):\n            return x.real\n        x = self.clip(x, lb, ub)")
M("C08", "mutator-skips-coordinate", "operators.py", "                vector.append(self.uniform_mutation(parent[i], l_b, u_b))\n            else:\n                vector.append(parent[i])", "                vector.append(self.uniform_mutation(parent[i], l_b, u_b))\n            elif i > 0:\n                vector.append(parent[i])")
M("C08", "sbx-unclipped-c2", "operators.py", "                        c1 = self.clip(c1, lb, ub)\n                        c2 = self.clip(c2, lb, ub)", "                        c1 = self.clip(c1, lb, ub)")
M("C08", "sbx-clip-wrong-param", "operators.py", "                        lb, ub = param['bounds'][0], param['bounds'][1]", "                        lb, ub = self.parameters[0]['bounds'][0], self.parameters[0]['bounds'][1]")
M("C08", "gen-number-truncate", "utils.py", "number = round(number / precision) * precision", "number = int(number / precision + 0.5) * precision")
M("C08", "gen-number-overshoot", "utils.py", "number = random() * (bounds[1] - bounds[0]) + bounds[0]", "number = random() * (bounds[1] - bounds[0]) + bounds[1]")
M("C08", "gen-number-default-normal", "utils.py", 'def gen_number(cls, bounds=None, precision=0, distribution="uniform", p_type="real"):', 'def gen_number(cls, bounds=None, precision=0, distribution="normal", p_type="real"):')
M("C08", "gen-vector-drops-bounds", "utils.py", "            if precision is None:\n                parameters_vector.append(cls.gen_number(bounds=bounds, p_type=p_type))", "            if precision is None:\n                parameters_vector.append(cls.gen_number(p_type=p_type))")
M("C08", "doe-scaling-offset", "doe.py", "row.append(factor_lists[index][0] + (w[index] * np.fabs(factor_lists[index][1] - factor_lists[index][0])))", "row.append(factor_lists[index][0] + (w[index] * np.fabs(factor_lists[index][1])))")
M("C08", "grid-step", "operators.py", "delta = (parameter['bounds'][1] - parameter['bounds'][0]) / (self.number - 1)", "delta = (parameter['bounds'][1] - parameter['bounds'][0]) / (self.number - 2)")
M("C08", "position-upper-test-removed", "algorithm_swarm.py", "                # adjust maximum position if necessary\n                if individual.vector[i] > parameter['bounds'][1]:\n                    individual.vector[i] = parameter['bounds'][1]\n                    individual.features['velocity'][i] *= 0.001\n", "")
M("C08", "simple-mutator-wired", "algorithm_NSGAII.py", "self.mutator = PmMutator(self.problem.parameters, self.options['prob_mutation'])", "self.mutator = SimpleMutator(self.problem.parameters, self.options['prob_mutation'])")
M("C08", "evaluate-before-clamp", "algorithm_swarm.py", "            self.update_velocity(offsprings)\n            self.update_position(offsprings)\n            self.turbulence(offsprings, it)\n\n            self.evaluate(offsprings)\n\n            self.update_particle_best(offsprings)\n            self.update_global_best(offsprings)\n\n            # update individuals\n            individuals = offsprings\n\n            for individual in individuals:\n                # add to population\n                individual.population_id = it + 1\n                # append to problem\n                self.problem.individuals.append(individual)\n                # sync to datastore\n                self.problem.data_store.sync_individual(individual)\n\n            it += 1\n\n        t = time.time() - t_s\n        self.problem.logger.info(\"PSO: elapsed time: {} s\".format(t))\n\n        # sync changed individual informations\n        self.problem.data_store.sync_all()\n\n\nclass PSOGA", "            self.update_velocity(offsprings)\n            self.evaluate(offsprings)\n            self.update_position(offsprings)\n            self.turbulence(offsprings, it)\n\n            self.update_particle_best(offsprings)\n            self.update_global_best(offsprings)\n\n            # update individuals\n            individuals = offsprings\n\n            for individual in individuals:\n                # add to population\n                individual.population_id = it + 1\n                # append to problem\n                self.problem.individuals.append(individual)\n                # sync to datastore\n                self.problem.data_store.sync_individual(individual)\n\n            it += 1\n\n        t = time.time() - t_s\n        self.problem.logger.info(\"PSO: elapsed time: {} s\".format(t))\n\n        # sync changed individual informations\n        self.problem.data_store.sync_all()\n\n\nclass PSOGA")
M("C08", "turbulence-raw-shift", "algorithm_swarm.py", "                particles[i].vector = self.mutator.mutate(particles[i].vector)", "                particles[i].vector = [v * 1.01 for v in particles[i].vector]")
M("C08", "pb-levels-extended", "operators.py", "            dict_vars[name] = [l_b, u_b]\n\n        df = build_plackett_burman(dict_vars)", "            dict_vars[name] = [l_b - 1.0, u_b]\n\n        df = build_plackett_burman(dict_vars)")
# twins
M("C08", "twin-clip-order", "operators.py", "        return max(min_value, min(value, max_value))", "        return min(max_value, max(value, min_value))", "H")
M("C08", "twin-inline-bounds", "operators.py", "                l_b = parameter['bounds'][0]\n                u_b = parameter['bounds'][1]\n                vector.append(self.uniform_mutation(parent[i], l_b, u_b))", "                vector.append(self.uniform_mutation(parent[i], parameter['bounds'][0], parameter['bounds'][1]))", "H")

# ---------------------------------------------------------------- C07
M("C07", "twin-job-writes-unused-attr", "job.py", "        for i in range(5):\n", "        self.current = individual\n        for i in range(5):\n", "H")
M("C07", "job-caches-current-used", "job.py", "                costs = self.problem.surrogate.evaluate(individual)\n                individual.costs = costs\n", "                self.current = individual\n                costs = self.problem.surrogate.evaluate(individual)\n                self.current.costs = costs\n")
M("C07", "job-shared-constraints", "job.py", "            constraints = self.problem.evaluate_inequality_constraints(individual.vector)\n\n            if len(constraints) > 0:\n                # sum(map(abs, constraints)) - original version\n                eps = 0.0\n                individual.features[\"feasible\"] = all(v < eps for (v) in constraints)", "            self.constraints = self.problem.evaluate_inequality_constraints(individual.vector)\n\n            if len(self.constraints) > 0:\n                # sum(map(abs, constraints)) - original version\n                eps = 0.0\n                individual.features[\"feasible\"] = all(v < eps for (v) in self.constraints)")
M("C07", "surrogate-last-value", "surrogate.py", "    def evaluate(self, individual):\n        self.eval_counter += 1\n        return self.problem.evaluate(individual)", "    def evaluate(self, individual):\n        self.eval_counter += 1\n        self.last = self.problem.evaluate(individual)\n        return self.last")
M("C07", "dispatch-filters", "operators.py", "            delayed(self.job.evaluate)(individual)\n            for individual in individuals)", "            delayed(self.job.evaluate)(individual)\n            for individual in individuals if individual.state == individual.State.EMPTY)")
M("C07", "dispatch-duplicates", "operators.py", "            delayed(self.job.evaluate)(individual)\n            for individual in individuals)", "            delayed(self.job.evaluate)(individual)\n            for individual in individuals + individuals[:1])")
M("C07", "dispatch-no-sharedmem", "operators.py", "Parallel(n_jobs=self.algorithm.options[\"max_processes\"], verbose=1, require='sharedmem')(", "Parallel(n_jobs=self.algorithm.options[\"max_processes\"], verbose=1)(")
M("C07", "conn-cached-threadsafe", "datastore.py", "                    conn = sqlite3.connect(self.database_name, isolation_level='Exclusive')\n                    c = conn.cursor()\n                    c.execute('PRAGMA synchronous = 0')\n                    c.execute('PRAGMA journal_mode = ON')\n                    conn.commit()", "                    if self._conn is None:\n                        self._conn = sqlite3.connect(self.database_name, isolation_level='Exclusive')\n                    conn = self._conn\n                    c = conn.cursor()\n                    c.execute('PRAGMA synchronous = 0')\n                    c.execute('PRAGMA journal_mode = ON')\n                    conn.commit()")
M("C07", "contention-swallowed", "datastore.py", "            except sqlite3.OperationalError as e:\n                # try again\n                self.sync_individual(individual)", "            except sqlite3.OperationalError as e:\n                print(e)")
# twins
M("C07", "twin-lock-protected", "surrogate.py", "    def evaluate(self, individual):\n        self.eval_counter += 1\n        return self.problem.evaluate(individual)", "    def evaluate(self, individual):\n        with self.lock:\n            self.eval_counter = self.eval_counter + 1\n        return self.problem.evaluate(individual)", "H")
M("C07", "twin-list-dispatch", "operators.py", "            delayed(self.job.evaluate)(individual)\n            for individual in individuals)", "            [delayed(self.job.evaluate)(individual)\n             for individual in individuals])", "H")

# ---------------------------------------------------------------- C12
M("C12", "halton-no-burn-in-drop", "doe.py", "    sample = np.stack(sample, axis=-1)[1:]\n", "    sample = np.stack(sample, axis=-1)[:-1]\n")
M("C12", "halton-terms", "doe.py", "sample = [_van_der_corput(num_points + 1, dimension) for dimension in base]", "sample = [_van_der_corput(num_points, dimension) for dimension in base]")
M("C12", "halton-fixed-sieve", "doe.py", "    big_number = 10\n    while 'Not enought primes':\n        base = _primes_from_2_to(big_number)[:dimension]\n        if len(base) == dimension:\n            break\n        big_number += 1000\n", "    base = _primes_from_2_to(11 if dimension < 6 else 20 * dimension)[:dimension]\n")
M("C12", "vdc-denominator-late", "doe.py", "            denom *= base\n            n_th_number += remainder / denom\n", "            n_th_number += remainder / denom\n            denom *= base\n")
M("C12", "vdc-wrong-base", "doe.py", "            i, remainder = divmod(i, base)\n", "            i, remainder = divmod(i, 2)\n")
M("C12", "lhs-a-dropped", "doe.py", "        rdpoints[:, j] = u[:, j] * (b - a) + a\n", "        rdpoints[:, j] = u[:, j] * (b - a)\n")
M("C12", "lhs-cut-N", "doe.py", "    cut = np.linspace(0, 1, samples + 1)\n\n    # Fill points uniformly in each interval\n    u = randomstate.rand(samples, n)\n    a = cut[:samples]\n    b = cut[1:samples + 1]\n    rdpoints", "    cut = np.linspace(0, 1, samples)\n\n    # Fill points uniformly in each interval\n    u = randomstate.rand(samples, n)\n    a = cut[:samples]\n    b = cut[1:samples + 1]\n    rdpoints")
M("C12", "lhs-random-indices", "doe.py", "        order = randomstate.permutation(range(samples))\n        H[:, j] = rdpoints[order, j]", "        order = randomstate.randint(0, samples, samples)\n        H[:, j] = rdpoints[order, j]")
M("C12", "lhs-shared-column", "doe.py", "        H[:, j] = rdpoints[order, j]", "        H[:, j] = rdpoints[order, 0]")
M("C12", "lhs-default-centered", "doe.py", "    else:\n        H = _lhsclassic(n, samples, random_state)\n", "    else:\n        H = _lhscentered(n, samples, random_state)\n")
M("C12", "grid-step-number", "operators.py", "delta = (parameter['bounds'][1] - parameter['bounds'][0]) / (self.number - 1)", "delta = (parameter['bounds'][1] - parameter['bounds'][0]) / self.number")
M("C12", "grid-zip-instead-of-product", "operators.py", "for combination in itertools.product(*vectors):", "for combination in zip(*vectors):")
M("C12", "random-one-less", "operators.py", "        vectors = []\n        for i in range(self.number):\n            vector = VectorAndNumbers.gen_vector(self.parameters)\n            vectors.append(vector)\n        return vectors\n\n\nclass IntegerGenerator", "        vectors = []\n        for i in range(self.number - 1):\n            vector = VectorAndNumbers.gen_vector(self.parameters)\n            vectors.append(vector)\n        return vectors\n\n\nclass IntegerGenerator")
M("C12", "halton-generator-number", "operators.py", "df = build_halton(dict_vars, num_samples=self.number)", "df = build_halton(dict_vars)")
# twins
M("C12", "twin-lhs-expr-order", "doe.py", "        rdpoints[:, j] = u[:, j] * (b - a) + a\n", "        rdpoints[:, j] = a + (b - a) * u[:, j]\n", "H")
M("C12", "twin-halton-for-loop", "doe.py", "sample = [_van_der_corput(num_points + 1, dimension) for dimension in base]", "sample = [_van_der_corput(1 + num_points, prime) for prime in base]", "H")

# ---------------------------------------------------------------- C13
M("C13", "pb-seed-entry", "doe.py", "toeplitz([-1, -1, 1, -1, -1, -1, 1, 1, 1, -1, 1],", "toeplitz([-1, -1, 1, -1, -1, 1, 1, 1, 1, -1, 1],")
M("C13", "pb-hankel-entry", "doe.py", "[1, -1, -1, 1, 1, -1, -1, -1, -1, 1, -1, 1, -1, 1, 1, 1, 1, -1, -1])", "[1, -1, -1, 1, 1, -1, -1, -1, -1, 1, -1, 1, -1, 1, 1, 1, 1, -1, 1])")
M("C13", "pb-lost-minus", "doe.py", "H = np.vstack((np.hstack((H, H)), np.hstack((H, -H))))", "H = np.vstack((np.hstack((H, H)), np.hstack((H, H))))")
M("C13", "pb-column-slice", "doe.py", "    H = H[:, 1:(keep + 1)]", "    H = H[:, 0:keep]")
M("C13", "pb-run-count-ceil", "doe.py", "    n = 4 * (int(n / 4) + 1)  # calculate the correct number of rows (multiple of 4)", "    n = 4 * int(np.ceil(n / 4.))")
M("C13", "pb-keep-after", "doe.py", "    keep = int(n)\n    n = 4 * (int(n / 4) + 1)  # calculate the correct number of rows (multiple of 4)\n", "    n = 4 * (int(n / 4) + 1)  # calculate the correct number of rows (multiple of 4)\n    keep = int(n)\n")
M("C13", "pb-codes", "doe.py", "        if x == -1:\n            return 0\n        else:\n            return x\n\n    vfunc = np.vectorize(index_change)\n    x = vfunc(x)\n\n    df = construct_df(x, factor_lists)\n    \n", "        if x == -1:\n            return 1\n        else:\n            return x\n\n    vfunc = np.vectorize(index_change)\n    x = vfunc(x)\n\n    df = construct_df(x, factor_lists)\n    \n")
M("C13", "ff-radix-update-moved", "doe.py", "        rng = lvl * range_repeat\n        level_repeat *= levels[i]\n", "        level_repeat *= levels[i]\n        rng = lvl * range_repeat\n", "H")
M("C13", "ff-repeat-before-levels", "doe.py", "        range_repeat //= levels[i]\n        lvl = []\n", "        range_repeat //= levels[i]\n        level_repeat *= levels[i]\n        lvl = []\n")
M("C13", "ff-tile-after", "doe.py", "        range_repeat //= levels[i]\n        lvl = []\n        for j in range(levels[i]):\n            lvl += [j] * level_repeat\n        rng = lvl * range_repeat\n", "        lvl = []\n        for j in range(levels[i]):\n            lvl += [j] * level_repeat\n        rng = lvl * range_repeat\n        range_repeat //= levels[i]\n")
M("C13", "construct-df-index", "doe.py", "            row.append(factor_lists[index][int(col[index])])", "            row.append(factor_lists[index][int(col[0])])")
M("C13", "bb-inner-from-i", "doe.py", "        for j in range(i + 1, n):\n            Index = Index + 1", "        for j in range(i + 2, n):\n            Index = Index + 1")
M("C13", "bb-block-offset", "doe.py", "            H[max([0, (Index - 1) * H_fact.shape[0]]):Index * H_fact.shape[0], j] = H_fact[:, 1]", "            H[max([0, (Index - 1) * H_fact.shape[0]]):(Index + 1) * H_fact.shape[0], j] = H_fact[:, 1]")
M("C13", "bb-same-column-twice", "doe.py", "            H[max([0, (Index - 1) * H_fact.shape[0]]):Index * H_fact.shape[0], j] = H_fact[:, 1]", "            H[max([0, (Index - 1) * H_fact.shape[0]]):Index * H_fact.shape[0], j] = H_fact[:, 0]")
M("C13", "bb-center-3", "doe.py", "    x = bbdesign(factor_count, center=1)\n    x = x + 1  # Adjusting the index up by 1\n\n    df = construct_df(x, factor_lists)\n\n    return df\n\n\n# Function for building central-composite", "    x = bbdesign(factor_count, center=3)\n    x = x + 1  # Adjusting the index up by 1\n\n    df = construct_df(x, factor_lists)\n\n    return df\n\n\n# Function for building central-composite")
M("C13", "bb-counter-late", "doe.py", "            Index = Index + 1\n            H[max([0, (Index - 1) * H_fact.shape[0]]):Index * H_fact.shape[0], i] = H_fact[:, 0]\n            H[max([0, (Index - 1) * H_fact.shape[0]]):Index * H_fact.shape[0], j] = H_fact[:, 1]\n", "            H[max([0, (Index - 1) * H_fact.shape[0]]):Index * H_fact.shape[0], i] = H_fact[:, 0]\n            H[max([0, (Index - 1) * H_fact.shape[0]]):Index * H_fact.shape[0], j] = H_fact[:, 1]\n            Index = Index + 1\n")
# twins
M("C13", "twin-pb-floordiv", "doe.py", "    n = 4 * (int(n / 4) + 1)  # calculate the correct number of rows (multiple of 4)", "    n = (n // 4 + 1) * 4", "H")
M("C10", "syncall-first-wins-batch", "datastore.py", "            for individual in self.problem.individuals:\n                c.execute(self.sql_individuals_upsert, [individual.id, json.dumps(individual.to_dict())])\n\n            conn.commit()", "            rows = {}\n            for individual in self.problem.individuals:\n                if individual.id not in rows:\n                    rows[individual.id] = json.dumps(individual.to_dict())\n\n            c.executemany(self.sql_individuals_upsert, list(rows.items()))\n            conn.commit()")
M("C10", "twin-syncall-executemany", "datastore.py", "            for individual in self.problem.individuals:\n                c.execute(self.sql_individuals_upsert, [individual.id, json.dumps(individual.to_dict())])\n\n            conn.commit()", "            c.executemany(self.sql_individuals_upsert, [(individual.id, json.dumps(individual.to_dict())) for individual in self.problem.individuals])\n            conn.commit()", "H")
M("C10", "twin-syncall-dict-last-wins", "datastore.py", "            for individual in self.problem.individuals:\n                c.execute(self.sql_individuals_upsert, [individual.id, json.dumps(individual.to_dict())])\n\n            conn.commit()", "            rows = {}\n            for individual in self.problem.individuals:\n                rows[individual.id] = json.dumps(individual.to_dict())\n\n            c.executemany(self.sql_individuals_upsert, list(rows.items()))\n            conn.commit()", "H")
M("C13", "gsd-partition-step", "doe.py", "                index = partition_i + (level_i - 1) * num_partitions", "                index = partition_i + level_i * num_partitions")
M("C13", "gsd-partition-guard", "doe.py", "                if index <= num_levels:\n                    part.append(index)", "                if index < num_levels:\n                    part.append(index)")
M("C13", "gsd-latin-not-cyclic", "doe.py", "latin_square = np.vstack([np.roll(numbers, -i) for i in range(n)])", "latin_square = np.vstack([np.roll(numbers, -2 * i) for i in range(n)])")
M("C13", "gsd-code-offset", "operators.py", "                vals.append(self.values[i][vector[i]])", "                vals.append(self.values[i][vector[i] - 1])")
M("C01", "pareto-sum-shortcut", "operators.py", P_LOOP, """        p_sum = sum(p[:-1])
        q_sum = sum(q[:-1])
        if p_sum == q_sum:
            return 0
        elif p_sum < q_sum:
            better, worse, winner = p, q, 1
        else:
            better, worse, winner = q, p, 2
        for (b_costs, w_costs) in zip(better[:-1], worse[:-1]):
            if b_costs > w_costs:
                return 0
        return winner
""")
M("C01", "pareto-early-return-first-better", "operators.py", P_LOOP, """        for (p_costs, q_costs) in zip(p[:-1], q[:-1]):
            if p_costs < q_costs:
                return 1
            elif q_costs < p_costs:
                return 2
        return 0
""")
M("C03", "truncate-groupby-dedupe", "operators.py", "    population = list(set(population))\n    result = sorted(population, key=functools.cmp_to_key(nondominated_cmp))\n", "    result = sorted(population, key=functools.cmp_to_key(nondominated_cmp))\n    result = [next(g) for _, g in itertools.groupby(result, key=lambda x: tuple(x.vector))]\n")
M("C03", "truncate-rounded-key-dedupe", "operators.py", "    population = list(set(population))\n", "    unique = {}\n    for individual in population:\n        unique.setdefault(tuple(round(x, 7) for x in individual.vector), individual)\n    population = list(unique.values())\n", also_breaks=("C09",))
M("C03", "twin-truncate-exact-dict-dedupe", "operators.py", "    population = list(set(population))\n", "    unique = {}\n    for individual in population:\n        unique.setdefault(tuple(individual.vector), individual)\n    population = list(unique.values())\n", "H")
M("C09", "truncate-rounded-key-dedupe", "operators.py", "    population = list(set(population))\n", "    unique = {}\n    for individual in population:\n        unique.setdefault(tuple(round(x, 7) for x in individual.vector), individual)\n    population = list(unique.values())\n")
M("C04", "dup-test-tolerance-helper", "archive.py", "                    if individual.costs_signed == current_solution.costs_signed:\n", "                    if all(abs(a - b) <= 1e-7 for a, b in zip(individual.costs_signed, current_solution.costs_signed)):\n")
M("C07", "sync-bounded-retry-falls-out", "datastore.py", "            # data\n            try:\n                c.execute(self.sql_individuals_upsert, [individual.id, json.dumps(individual.to_dict())])\n                conn.commit()\n            except sqlite3.OperationalError as e:\n                # try again\n                self.sync_individual(individual)", "            for attempt in range(3):\n                try:\n                    c.execute(self.sql_individuals_upsert, [individual.id, json.dumps(individual.to_dict())])\n                    conn.commit()\n                    return\n                except sqlite3.OperationalError as e:\n                    continue")
M("C07", "twin-sync-bounded-retry-raises", "datastore.py", "            # data\n            try:\n                c.execute(self.sql_individuals_upsert, [individual.id, json.dumps(individual.to_dict())])\n                conn.commit()\n            except sqlite3.OperationalError as e:\n                # try again\n                self.sync_individual(individual)", "            for attempt in range(50):\n                try:\n                    c.execute(self.sql_individuals_upsert, [individual.id, json.dumps(individual.to_dict())])\n                    conn.commit()\n                    return\n                except sqlite3.OperationalError as e:\n                    continue\n            raise RuntimeError('database stays locked')", "H")
M("C08", "lhs-sorted-keys", "doe.py", "    if num_samples == None:\n        num_samples = factor_count\n\n    for key in factor_level_ranges:\n        factor_lists.append(factor_level_ranges[key])\n\n    x = lhs(", "    if num_samples == None:\n        num_samples = factor_count\n\n    for key in sorted(factor_level_ranges):\n        factor_lists.append(factor_level_ranges[key])\n\n    x = lhs(")
M("C10", "parameters-without-rowid", "datastore.py", 'sql_parameters_table = "CREATE TABLE IF NOT EXISTS parameters (name text PRIMARY KEY, parameter json not null);"', 'sql_parameters_table = "CREATE TABLE IF NOT EXISTS parameters (name text PRIMARY KEY, parameter json not null) WITHOUT ROWID;"')
M("C17", "table-zips-two-listings", "results.py", "        out = []\n        for individuals in self.problem.populations().values():\n            for individual in individuals:\n                out.append(individual.vector + individual.costs)\n\n        if transpose:", "        out = [vector + list(costs) for vector, costs in zip(self.parameters(), zip(*self.costs()))]\n\n        if transpose:")
M("C12", "vdc-float-log-digits", "doe.py", "    sequence = []\n    for i in range(n_sample):\n        n_th_number, denom = 0., 1.\n        while i > 0:\n            i, remainder = divmod(i, base)\n            denom *= base\n            n_th_number += remainder / denom\n        sequence.append(n_th_number)\n\n    return sequence", "    idx = np.arange(n_sample)\n    out = np.zeros(n_sample)\n    denom = 1.0\n    for _ in range(int(np.log(max(n_sample - 1, 1)) / np.log(base)) + 1):\n        idx, remainder = np.divmod(idx, base)\n        denom *= base\n        out += remainder / denom\n    return list(out)")
M("C13", "gsd-roll-without-axis", "doe.py", "            for constant, other_A in zip(first_row,\n                                         np.array(A_matrices)[latin_square[i]]):", "            for constant, other_A in zip(first_row, np.roll(np.array(A_matrices), -i)):")
M("C20", "hash-cached", "individual.py", "        return hash(tuple(self.vector))", "        if getattr(self, '_hash', None) is None:\n            self._hash = hash(tuple(self.vector))\n        return self._hash")

# work-list ranking: last-in-first-out is a recognised contradiction, first-in-first-out ranks correctly (not provable here: quiet)
_WL_OLD = """        while len(pareto_front[front_number - 1]) > 0:
            front_number += 1
            pareto_front.append([])
            for p in pareto_front[front_number - 2]:
                for individual_id in p.features['dominate']:
                    q = self.individual(individuals, individual_id)
                    q.features['domination_counter'] -= 1
                    if q.features['domination_counter'] == 0 and q.features['front_number'] is None:
                        q.features['front_number'] = front_number
                        pareto_front[front_number - 1].append(q)

        if len(pareto_front[front_number - 1]) == 0:
"""
_WL_NEW = """        ranked = list(pareto_front[0])
        while len(ranked) > 0:
            p = ranked.pop(%s)
            front_number = p.features['front_number'] + 1
            if len(pareto_front) < front_number:
                pareto_front.append([])
            for individual_id in p.features['dominate']:
                q = self.individual(individuals, individual_id)
                q.features['domination_counter'] -= 1
                if q.features['domination_counter'] == 0 and q.features['front_number'] is None:
                    q.features['front_number'] = front_number
                    pareto_front[front_number - 1].append(q)
                    ranked.append(q)

        if len(pareto_front[-1]) == 0:
"""
M("C02", "worklist-lifo", "operators.py", _WL_OLD, _WL_NEW % "")
M("C02", "worklist-fifo-quiet", "operators.py", _WL_OLD, _WL_NEW % "0", expect="Q")

M("C11", "view-read-only-uri", "datastore.py", "                else:\n                    conn = sqlite3.connect(self.database_name)\n            except sqlite3.Error as e:",
  "                else:\n                    conn = sqlite3.connect('file:' + self.database_name + '?mode=ro', uri=True)\n            except sqlite3.Error as e:")
