"""Bounded, path-sensitive enumeration of the control-flow paths of a function.

A path is the sequence of *events* met from entry to an exit: simple
statements, guard decisions (one per atom of a condition, short-circuit
order), loop iterations, handler entries, returns and raises.  Loops are
unrolled to a configurable set of iteration counts (default 0, 1 and 2); for
the event-order rules that use this module (finite automata with at most
three states over the events of one loop body) a violating path with more
iterations always has a violating path within the bound (pumping argument).

Infeasible paths are pruned with a small fact store, updated by the guards
already taken and by assignments of literals, and invalidated by every
statement that may change an access path a fact depends on:
  * truthiness of an expression (keyed by its normalised text),
  * equality/disequality of an expression with literals, numeric interval
    facts against literals,
  * `is None` facts,
  * D-ORD order facts ({<,=,>} subsets) between two non-literal operands.
Atoms that contain a call outside the pure-builtin table are never
memoised (two `random.random() <= 0.5` tests are independent).

Nothing here executes repository code: the enumerator only walks syntax.
"""
import ast
import os

from .astutil import (text, access_path, access_paths_in, mutated_paths,
                      paths_overlap, const_value, is_const, calls_in,
                      walk_no_nested, store_targets)
from .loader import AnalysisError

PURE_CALLS = {"len", "abs", "isinstance", "hasattr", "float", "int", "min", "max", "dir",
              "type", "str", "bool", "round", "sum", "any", "all", "sorted", "tuple", "list",
              "range", "enumerate", "zip", "set", "frozenset", "callable", "getattr"}

CATCH_ALL = {None, "Exception", "BaseException"}
# child -> parents (the part of the builtin hierarchy artap's handlers name)
EXC_PARENTS = {
    "TimeoutError": {"OSError", "Exception", "BaseException"},
    "OSError": {"Exception", "BaseException"},
    "RuntimeError": {"Exception", "BaseException"},
    "NotImplementedError": {"RuntimeError", "Exception", "BaseException"},
    "RecursionError": {"RuntimeError", "Exception", "BaseException"},
    "ValueError": {"Exception", "BaseException"},
    "KeyError": {"LookupError", "Exception", "BaseException"},
    "IndexError": {"LookupError", "Exception", "BaseException"},
    "AssertionError": {"Exception", "BaseException"},
    "TypeError": {"Exception", "BaseException"},
    "ZeroDivisionError": {"ArithmeticError", "Exception", "BaseException"},
    "AttributeError": {"Exception", "BaseException"},
    "KeyboardInterrupt": {"BaseException"},
    "SystemExit": {"BaseException"},
}


class Ev:
    __slots__ = ("kind", "node", "val", "frame", "extra")

    def __init__(self, kind, node, val=None, frame=0, extra=None):
        self.kind = kind
        self.node = node
        self.val = val
        self.frame = frame
        self.extra = extra

    def __repr__(self):
        t = text(self.node).split("\n")[0][:70] if self.node is not None else ""
        return "%s[%s]%s" % (self.kind, t, "" if self.val is None else "=%r" % (self.val,))


class Path:
    def __init__(self, events, outcome, node=None, exc=None):
        self.events = events
        self.outcome = outcome  # 'return' | 'raise' | 'fall'
        self.node = node
        self.exc = exc

    def of_kind(self, *kinds):
        return [e for e in self.events if e.kind in kinds]

    def stmts(self):
        return [e for e in self.events if e.kind == "stmt"]

    def guards(self):
        return [(text(e.node), e.val) for e in self.events if e.kind == "guard"]

    def index(self, pred, start=0):
        for i in range(start, len(self.events)):
            if pred(self.events[i]):
                return i
        return -1

    def indices(self, pred):
        return [i for i, e in enumerate(self.events) if pred(e)]

    def count(self, pred):
        return sum(1 for e in self.events if pred(e))

    def describe(self, limit=12):
        parts = []
        for e in self.events:
            if e.kind == "guard":
                parts.append(("" if e.val else "not ") + "(" + text(e.node)[:60] + ")")
            elif e.kind == "iter":
                parts.append("iter#%d@%d" % (e.val, getattr(e.node, "lineno", 0)))
            elif e.kind == "catch":
                parts.append("except " + (text(e.node.type) if e.node.type is not None else "<bare>"))
            elif e.kind == "raises":
                parts.append("raises@%d" % getattr(e.node, "lineno", 0))
        if len(parts) > limit:
            parts = parts[:limit] + ["..."]
        end = self.outcome
        if self.outcome == "return" and self.node is not None:
            end = "return " + (text(self.node.value) if self.node.value is not None else "")
        elif self.outcome == "raise":
            end = "raise " + str(self.exc)
        return " ; ".join(parts) + " => " + end


# --------------------------------------------------------------------- facts
class Facts:
    """Persistent (copy-on-write) fact store."""
    __slots__ = ("bools", "consts", "nes", "ivl", "nones", "ords", "deps")

    def __init__(self):
        self.bools = {}
        self.consts = {}
        self.nes = {}
        self.ivl = {}
        self.nones = {}
        self.ords = {}
        self.deps = {}

    def copy(self):
        f = Facts()
        f.bools = dict(self.bools)
        f.consts = dict(self.consts)
        f.nes = dict(self.nes)
        f.ivl = dict(self.ivl)
        f.nones = dict(self.nones)
        f.ords = dict(self.ords)
        f.deps = dict(self.deps)
        return f

    def _dep(self, key, *nodes):
        d = set()
        for n in nodes:
            d |= access_paths_in(n)
        self.deps[key] = d | self.deps.get(key, set())

    def invalidate(self, mutated, rebound=None):
        """`rebound`: the paths the statement assigns (None: unknown, treat every mutated path as rebound).  That a plain
        name is / is not None survives a change of the object's contents (x.append(..), x[i] = ..): only rebinding x ends it"""
        if not mutated:
            return self
        dead = []
        for key, d in self.deps.items():
            if any(paths_overlap(m, p) for m in mutated for p in d):
                dead.append(key)
        if not dead:
            return self
        f = self.copy()
        for key in dead:
            keep_none = None
            if rebound is not None and key in f.nones and key.isidentifier() and key not in rebound:
                keep_none = f.nones[key]
            if keep_none is None:
                f.deps.pop(key, None)
            for store in (f.bools, f.consts, f.nes, f.ivl, f.nones):
                store.pop(key, None)
            if keep_none is not None:
                f.nones[key] = keep_none
            for k in [k for k in f.ords if key in k]:
                f.ords.pop(k, None)
        return f


def _memoisable(atom):
    for c in calls_in(atom):
        f = c.func
        if isinstance(f, ast.Name) and f.id in PURE_CALLS:
            continue
        if isinstance(f, ast.Attribute) and f.attr in ("size", "get", "keys", "values", "items", "lower", "startswith"):
            continue
        return False
    return True


def _num(v):
    return isinstance(v, (int, float)) and not isinstance(v, bool)


_FLIP = {ast.Lt: ast.Gt, ast.Gt: ast.Lt, ast.LtE: ast.GtE, ast.GtE: ast.LtE, ast.Eq: ast.Eq, ast.NotEq: ast.NotEq}
_RELS = {ast.Lt: "<", ast.Gt: ">", ast.LtE: "<=", ast.GtE: ">=", ast.Eq: "=", ast.NotEq: "<>"}


def _ivl_decide(iv, op, c):
    """iv=(lo,lo_strict,hi,hi_strict); truth of `E op c` if determined else None."""
    lo, ls, hi, hs = iv
    if op is ast.Lt:
        if hi is not None and (hi < c or (hi == c and hs)):
            return True
        if lo is not None and lo >= c:
            return False
    elif op is ast.LtE:
        if hi is not None and hi <= c:
            return True
        if lo is not None and (lo > c or (lo == c and ls)):
            return False
    elif op is ast.Gt:
        if lo is not None and (lo > c or (lo == c and ls)):
            return True
        if hi is not None and hi <= c:
            return False
    elif op is ast.GtE:
        if lo is not None and lo >= c:
            return True
        if hi is not None and (hi < c or (hi == c and hs)):
            return False
    elif op in (ast.Eq, ast.NotEq):
        out = False
        if lo is not None and (lo > c or (lo == c and ls)):
            out = True
        if hi is not None and (hi < c or (hi == c and hs)):
            out = True
        if out:
            return op is ast.NotEq
    return None


def _ivl_refine(iv, op, c, truth):
    lo, ls, hi, hs = iv
    eff = op
    if not truth:
        eff = {ast.Lt: ast.GtE, ast.LtE: ast.Gt, ast.Gt: ast.LtE, ast.GtE: ast.Lt}.get(op)
    if eff is ast.Lt:
        if hi is None or c < hi or (c == hi and not hs):
            hi, hs = c, True
    elif eff is ast.LtE:
        if hi is None or c < hi:
            hi, hs = c, False
    elif eff is ast.Gt:
        if lo is None or c > lo or (c == lo and not ls):
            lo, ls = c, True
    elif eff is ast.GtE:
        if lo is None or c > lo:
            lo, ls = c, False
    return (lo, ls, hi, hs)


class FactEngine:
    """decide / record guard atoms against a Facts store."""

    @staticmethod
    def split(atom):
        """classify an atom -> (kind, payload)"""
        if isinstance(atom, ast.Compare) and len(atom.ops) == 1:
            op = type(atom.ops[0])
            a, b = atom.left, atom.comparators[0]
            if op in (ast.Is, ast.IsNot):
                if isinstance(b, ast.Constant) and b.value is None:
                    return "none", (a, op is ast.Is)
                if isinstance(b, ast.Constant) and isinstance(b.value, bool):
                    # `x is True` -> equality with the literal
                    return "cmpc", (a, ast.Eq if op is ast.Is else ast.NotEq, b.value)
            if op in _FLIP:
                if is_const(b) and not is_const(a):
                    return "cmpc", (a, op, const_value(b))
                if is_const(a) and not is_const(b):
                    return "cmpc", (b, _FLIP[op], const_value(a))
                if not is_const(a) and not is_const(b):
                    return "ord", (a, op, b)
        return "bool", atom

    @classmethod
    def decide(cls, atom, facts):
        if not _memoisable(atom):
            return None
        kind, p = cls.split(atom)
        if kind == "none":
            e, is_pos = p
            k = text(e)
            v = None
            if k in facts.nones:
                v = facts.nones[k]
            elif k in facts.consts:
                v = facts.consts[k] is None
            elif facts.bools.get(k) is True:
                v = False
            if v is None:
                return None
            return v if is_pos else not v
        if kind == "cmpc":
            e, op, c = p
            k = text(e)
            if k in facts.consts:
                v = facts.consts[k]
                try:
                    if op is ast.Eq:
                        return v == c
                    if op is ast.NotEq:
                        return v != c
                    if v is None or c is None:
                        return None
                    return {ast.Lt: v < c, ast.LtE: v <= c, ast.Gt: v > c, ast.GtE: v >= c}[op]
                except TypeError:
                    return None
            if facts.nones.get(k) is True and op in (ast.Eq, ast.NotEq) and c is not None:
                return op is ast.NotEq
            if op in (ast.Eq, ast.NotEq) and c in facts.nes.get(k, ()):  # known different
                return op is ast.NotEq
            if _num(c) and k in facts.ivl:
                return _ivl_decide(facts.ivl[k], op, c)
            return None
        if kind == "ord":
            a, op, b = p
            ka, kb = text(a), text(b)
            if ka == kb:
                return op in (ast.Eq, ast.LtE, ast.GtE)
            if ka in facts.consts and kb in facts.consts:
                va, vb = facts.consts[ka], facts.consts[kb]
                try:
                    return {ast.Lt: va < vb, ast.LtE: va <= vb, ast.Gt: va > vb, ast.GtE: va >= vb,
                            ast.Eq: va == vb, ast.NotEq: va != vb}[op]
                except TypeError:
                    return None
            key, rels = cls._ordkey(ka, kb, op)
            cur = facts.ords.get(key)
            if cur is None:
                return None
            if cur <= rels:
                return True
            if not (cur & rels):
                return False
            return None
        k = text(atom)
        if k in facts.bools:
            return facts.bools[k]
        if k in facts.consts:
            return bool(facts.consts[k])
        if facts.nones.get(k) is True:
            return False
        return None

    @staticmethod
    def _ordkey(ka, kb, op):
        rels = {ast.Lt: {"<"}, ast.LtE: {"<", "="}, ast.Gt: {">"}, ast.GtE: {">", "="},
                ast.Eq: {"="}, ast.NotEq: {"<", ">"}}[op]
        if ka <= kb:
            return (ka, kb), frozenset(rels)
        flip = {"<": ">", ">": "<", "=": "="}
        return (kb, ka), frozenset(flip[r] for r in rels)

    @classmethod
    def record(cls, atom, truth, facts):
        """returns new Facts, or None when the decision contradicts the store"""
        if not _memoisable(atom):
            return facts
        kind, p = cls.split(atom)
        f = facts.copy()
        if kind == "none":
            e, is_pos = p
            k = text(e)
            f.nones[k] = truth if is_pos else not truth
            f._dep(k, e)
            return f
        if kind == "cmpc":
            e, op, c = p
            k = text(e)
            f._dep(k, e)
            eq = (op is ast.Eq and truth) or (op is ast.NotEq and not truth)
            ne = (op is ast.NotEq and truth) or (op is ast.Eq and not truth)
            if eq:
                f.consts[k] = c
            elif ne:
                try:
                    f.nes[k] = frozenset(f.nes.get(k, frozenset())) | {c}
                except TypeError:
                    pass
            elif _num(c):
                iv = _ivl_refine(f.ivl.get(k, (None, False, None, False)), op, c, truth)
                lo, ls, hi, hs = iv
                if lo is not None and hi is not None and (lo > hi or (lo == hi and (ls or hs))):
                    return None
                f.ivl[k] = iv
            return f
        if kind == "ord":
            a, op, b = p
            ka, kb = text(a), text(b)
            if ka == kb:
                return f
            key, rels = cls._ordkey(ka, kb, op)
            if not truth:
                rels = frozenset("<=>") - rels
            cur = f.ords.get(key, frozenset("<=>")) & rels
            if not cur:
                return None
            f.ords[key] = cur
            f._dep(ka, a)
            f._dep(kb, b)
            return f
        k = text(atom)
        f.bools[k] = truth
        f._dep(k, atom)
        return f

    @classmethod
    def learn_assign(cls, stmt, facts):
        """x = <literal> gives an equality fact (after invalidation)."""
        if isinstance(stmt, ast.Assign) and len(stmt.targets) == 1 and is_const(stmt.value):
            t = stmt.targets[0]
            k = access_path(t)
            if k is not None:
                f = facts.copy()
                f.consts[k] = const_value(stmt.value)
                f._dep(k, t)
                return f
        # x = [..] / {..} / (..) / a comprehension: x is certainly not None
        if isinstance(stmt, ast.Assign) and len(stmt.targets) == 1 and isinstance(stmt.targets[0], ast.Name) \
                and isinstance(stmt.value, (ast.List, ast.Dict, ast.Set, ast.Tuple, ast.ListComp, ast.DictComp, ast.SetComp, ast.JoinedStr)):
            f = facts.copy()
            k = stmt.targets[0].id
            f.nones[k] = False
            f.deps[k] = {k}
            return f
        # x = y (a plain read): whatever is known about y now holds for x (and keeps holding when y changes later)
        if isinstance(stmt, ast.Assign) and len(stmt.targets) == 1 and isinstance(stmt.targets[0], ast.Name) \
                and isinstance(stmt.value, (ast.Name, ast.Attribute, ast.Subscript)):
            kx, ky = stmt.targets[0].id, access_path(stmt.value)
            if ky is not None and ky != kx:
                f = None
                for nm in ("bools", "consts", "nes", "ivl", "nones"):
                    st = getattr(facts, nm)
                    if ky in st:
                        if f is None:
                            f = facts.copy()
                        getattr(f, nm)[kx] = st[ky]
                if f is not None:
                    f.deps[kx] = {kx}
                    return f
        return facts


# ---------------------------------------------------------------- enumerator
class State:
    __slots__ = ("events", "facts", "in_try", "frame", "cur_exc")

    def __init__(self, events=None, facts=None, in_try=0, frame=0, cur_exc=None):
        self.events = events  # cons list (prev, ev)
        self.facts = facts or Facts()
        self.in_try = in_try
        self.frame = frame
        self.cur_exc = cur_exc

    def add(self, ev, facts=None):
        ev.frame = self.frame
        return State((self.events, ev), self.facts if facts is None else facts,
                     self.in_try, self.frame, self.cur_exc)

    def with_(self, **kw):
        s = State(self.events, self.facts, self.in_try, self.frame, self.cur_exc)
        for k, v in kw.items():
            setattr(s, k, v)
        return s

    def event_list(self):
        out = []
        c = self.events
        while c is not None:
            out.append(c[1])
            c = c[0]
        out.reverse()
        return out


def default_can_raise(stmt):
    return any(True for _ in calls_in(stmt, nested=False))


class TooManyPaths(AnalysisError):
    pass


STATS = {"paths": 0, "functions": 0}
DEEP = [os.environ.get("VERIF_TIER", "quick") == "thorough"]


class Enumerator:
    def __init__(self, loop_counts=(0, 1, 2), can_raise=default_can_raise, inline=None,
                 implicit_uncaught=False, max_paths=200000, use_facts=True):
        self._loop_counts = loop_counts
        self.can_raise = can_raise
        self.inline = inline
        self.implicit_uncaught = implicit_uncaught
        self.max_paths = max_paths
        self.use_facts = use_facts
        self._n = 0
        self._frames = 0
        self._deep = False

    def counts(self, node):
        c = self._loop_counts(node) if callable(self._loop_counts) else self._loop_counts
        c = tuple(sorted(set(c)))
        if self._deep and len(c) > 1:
            # thorough tier: one more round of every loop that is explored with a range of iteration counts
            c = c + (max(c) + 1,)
        return c

    # -- public
    def function_paths(self, fn, facts=None):
        """all paths of fn within the loop bounds; in the thorough tier (VERIF_TIER=thorough) loops are unrolled one
        round deeper, falling back to the standard bounds when that exceeds the path budget"""
        self._deep = DEEP[0]
        if self._deep:
            try:
                save = self.max_paths
                self.max_paths = min(self.max_paths, 60000)
                self._n = 0
                return self._function_paths(fn, facts)
            except TooManyPaths:
                STATS["deep_fallbacks"] = STATS.get("deep_fallbacks", 0) + 1
            finally:
                self.max_paths = save
            self._deep = False
            self._n = 0
        return self._function_paths(fn, facts)

    def _function_paths(self, fn, facts=None):
        st = State(None, facts or Facts())
        out = []
        STATS["functions"] += 1
        for st2, oc in self.block(fn.body, st):
            self._n += 1
            STATS["paths"] += 1
            if self._n > self.max_paths:
                raise TooManyPaths("more than %d paths in %s" % (self.max_paths, fn.name))
            kind = oc[0]
            if kind in ("next", "continue", "break"):
                out.append(Path(st2.event_list(), "fall"))
            elif kind == "return":
                out.append(Path(st2.event_list(), "return", oc[1]))
            else:
                out.append(Path(st2.event_list(), "raise", oc[2], oc[1]))
        return out

    # -- conditions
    def cond(self, test, st):
        if isinstance(test, ast.BoolOp):
            is_and = isinstance(test.op, ast.And)

            def rec(i, s):
                if i == len(test.values):
                    yield s, is_and
                    return
                for s2, t in self.cond(test.values[i], s):
                    if t != is_and:
                        yield s2, t
                    else:
                        yield from rec(i + 1, s2)
            yield from rec(0, st)
            return
        if isinstance(test, ast.UnaryOp) and isinstance(test.op, ast.Not):
            for s2, t in self.cond(test.operand, st):
                yield s2, not t
            return
        if isinstance(test, ast.Constant):
            yield st, bool(test.value)
            return
        forced = FactEngine.decide(test, st.facts) if self.use_facts else None
        for truth in ((forced,) if forced is not None else (True, False)):
            f2 = FactEngine.record(test, truth, st.facts) if self.use_facts else st.facts
            if f2 is None:
                continue
            yield st.add(Ev("guard", test, truth, extra=(forced is not None)), f2), truth

    # -- blocks
    def block(self, stmts, st):
        if not stmts:
            yield st, ("next",)
            return
        head, rest = stmts[0], stmts[1:]
        for st2, oc in self.stmt(head, st):
            if oc[0] == "next":
                if rest:
                    yield from self.block(rest, st2)
                else:
                    yield st2, oc
            else:
                yield st2, oc

    def _simple(self, node, st):
        facts = st.facts
        if self.use_facts:
            facts = facts.invalidate(mutated_paths(node), {access_path(t_) for t_ in store_targets(node) if access_path(t_)})
            facts = FactEngine.learn_assign(node, facts)
        return st.add(Ev("stmt", node), facts)

    def stmt(self, node, st):
        if isinstance(node, ast.If):
            for st2, t in self.cond(node.test, st):
                yield from self.block(node.body if t else node.orelse, st2)
        elif isinstance(node, (ast.For, ast.AsyncFor)):
            yield from self._for(node, st, 0)
        elif isinstance(node, ast.While):
            yield from self._while(node, st, 0)
        elif isinstance(node, ast.Try):
            yield from self._try(node, st)
        elif isinstance(node, (ast.With, ast.AsyncWith)):
            st2 = st.add(Ev("with", node), st.facts.invalidate(mutated_paths(node)) if self.use_facts else st.facts)
            yield from self.block(node.body, st2)
        elif isinstance(node, ast.Return):
            if st.in_try and node.value is not None and self.can_raise(node):
                yield st.add(Ev("raises", node)), ("raise", None, node)
            yield from self._maybe_inline(node, st, lambda s: iter([(s.add(Ev("return", node)), ("return", node))]))
        elif isinstance(node, ast.Raise):
            typ = None
            if node.exc is None:
                typ = st.cur_exc
            else:
                e = node.exc.func if isinstance(node.exc, ast.Call) else node.exc
                typ = access_path(e)
                if typ is None:
                    typ = "?"
            yield st.add(Ev("raise", node, typ)), ("raise", typ if typ is not None else "?", node)
        elif isinstance(node, ast.Break):
            yield st.add(Ev("break", node)), ("break",)
        elif isinstance(node, ast.Continue):
            yield st.add(Ev("continue", node)), ("continue",)
        elif isinstance(node, ast.Assert):
            for st2, t in self.cond(node.test, st):
                if t:
                    yield st2, ("next",)
                else:
                    yield st2.add(Ev("raise", node, "AssertionError")), ("raise", "AssertionError", node)
        elif isinstance(node, (ast.FunctionDef, ast.AsyncFunctionDef, ast.ClassDef)):
            yield st.add(Ev("stmt", node)), ("next",)
        else:
            if st.in_try and self.can_raise(node):
                yield st.add(Ev("raises", node)), ("raise", None, node)
            yield from self._maybe_inline(node, st, lambda s: iter([(self._simple(node, s), ("next",))]))

    # -- inlining of one resolvable call in statement position
    def _maybe_inline(self, node, st, then):
        target = None
        if self.inline is not None:
            val = getattr(node, "value", None)
            if isinstance(val, ast.Call):
                target = self.inline(val, st)
        if target is None:
            yield from then(st)
            return
        call = node.value
        self._frames += 1
        frame = self._frames
        st1 = st.add(Ev("call", call, target.name))
        caller_frame = st.frame
        st1 = st1.with_(frame=frame)
        for st2, oc in self.block(target.body, st1):
            if oc[0] in ("next", "return", "continue", "break"):
                ret = oc[1] if oc[0] == "return" else None
                st3 = st2.with_(frame=caller_frame).add(Ev("endcall", call, ret))
                # the callee may have changed anything reachable from its receiver/arguments
                if self.use_facts:
                    st3 = st3.with_(facts=st3.facts.invalidate(mutated_paths(node)))
                yield from then(st3)
            else:
                yield st2.with_(frame=caller_frame), oc

    # -- loops
    def _after_loop(self, node, st, how, k):
        st2 = st.add(Ev("exit", node, (how, k)))
        if how == "normal" and node.orelse:
            yield from self.block(node.orelse, st2)
        else:
            yield st2, ("next",)

    def _for(self, node, st, k):
        counts = self.counts(node)
        if isinstance(node.iter, (ast.Tuple, ast.List)) and 1 <= len(node.iter.elts) <= 3 and not any(isinstance(e_, ast.Starred) for e_ in node.iter.elts):
            counts = (len(node.iter.elts),)      # a literal of n elements is iterated exactly n times
        if k in counts:
            yield from self._after_loop(node, st, "normal", k)
        if k < max(counts):
            facts = st.facts
            if self.use_facts:
                facts = facts.invalidate(mutated_paths(node), {access_path(t_) for t_ in store_targets(node) if access_path(t_)})
            st1 = st.add(Ev("iter", node, k), facts)
            for st2, oc in self.block(node.body, st1):
                if oc[0] in ("next", "continue"):
                    yield from self._for(node, st2, k + 1)
                elif oc[0] == "break":
                    yield from self._after_loop(node, st2, "break", k + 1)
                else:
                    yield st2, oc

    def _while(self, node, st, k):
        counts = self.counts(node)
        for st1, t in self.cond(node.test, st):
            if not t:
                if k in counts or True:
                    # the test decides; an exit at an iteration count outside
                    # `counts` is still a real path of the program
                    yield from self._after_loop(node, st1, "normal", k)
                continue
            if k >= max(counts):
                continue  # bound reached: only the exit branch is followed
            st1 = st1.add(Ev("iter", node, k))
            for st2, oc in self.block(node.body, st1):
                if oc[0] in ("next", "continue"):
                    yield from self._while(node, st2, k + 1)
                elif oc[0] == "break":
                    yield from self._after_loop(node, st2, "break", k + 1)
                else:
                    yield st2, oc

    # -- try
    @staticmethod
    def handler_names(h):
        if h.type is None:
            return [None]
        if isinstance(h.type, ast.Tuple):
            return [access_path(e) for e in h.type.elts]
        return [access_path(h.type)]

    @classmethod
    def handler_matches(cls, h, typ):
        """'yes' | 'no' | 'maybe' for exception type name typ (None = unknown)."""
        names = cls.handler_names(h)
        if any(n in CATCH_ALL for n in names):
            return "yes"
        if typ is None or typ == "?":
            return "maybe"
        short = typ.split(".")[-1]
        for n in names:
            if n is None:
                continue
            ns = n.split(".")[-1]
            if ns == short or ns in EXC_PARENTS.get(short, ()):
                return "yes"
        if short in EXC_PARENTS or short in ("Exception", "BaseException"):
            return "no"
        return "maybe"

    def _try(self, node, st):
        def fin(s, oc):
            if not node.finalbody:
                yield s, oc
                return
            for s2, oc2 in self.block(node.finalbody, s):
                if oc2[0] == "next":
                    yield s2, oc
                else:
                    yield s2, oc2

        body_st = st.with_(in_try=st.in_try + (1 if node.handlers else 0))
        for st2, oc in self.block(node.body, body_st):
            st2 = st2.with_(in_try=st.in_try)
            if oc[0] == "next":
                if node.orelse:
                    for st3, oc3 in self.block(node.orelse, st2):
                        yield from fin(st3, oc3)
                else:
                    yield from fin(st2, oc)
            elif oc[0] == "raise":
                typ, src = oc[1], oc[2]
                caught_for_sure = False
                for h in node.handlers:
                    m = self.handler_matches(h, typ)
                    if m == "no":
                        continue
                    st3 = st2.add(Ev("catch", h, src)).with_(cur_exc=typ)
                    if h.name and self.use_facts:
                        st3 = st3.with_(facts=st3.facts.invalidate({h.name}))
                    for st4, oc4 in self.block(h.body, st3):
                        yield from fin(st4.with_(cur_exc=st.cur_exc), oc4)
                    if m == "yes":
                        caught_for_sure = True
                        break
                if not caught_for_sure and (typ not in (None,) or self.implicit_uncaught):
                    yield from fin(st2, oc)
            else:
                yield from fin(st2, oc)


def enumerate_paths(fn, **opts):
    return Enumerator(**opts).function_paths(fn)
