"""Findings, known-findings matching, replay files and the evidence writer."""
import hashlib
import json
import os
import time

VERIF = os.path.dirname(os.path.dirname(os.path.abspath(__file__)))
KNOWN = os.path.join(VERIF, "known_findings.jsonl")
OUT = os.environ.get("VERIF_OUT", VERIF)  # evidence/replays of self-test runs go elsewhere

HOLDS, VIOLATED, INCONCLUSIVE, KNOWN_FINDING = "HOLDS", "VIOLATED", "INCONCLUSIVE", "KNOWN-FINDING"


def load_known():
    out = []
    if os.path.exists(KNOWN):
        with open(KNOWN) as fh:
            for line in fh:
                line = line.strip()
                if line and not line.startswith("#"):
                    out.append(json.loads(line))
    return out


class Instance:
    def __init__(self, rule, construct, where, outcome, detail="", key="", facts=None):
        self.rule = rule
        self.construct = construct
        self.where = where
        self.outcome = outcome
        self.detail = detail
        self.key = key or construct
        self.facts = facts

    def ident(self):
        return (self.rule, self.construct, self.key)

    def as_dict(self):
        d = {"rule": self.rule, "construct": self.construct, "where": self.where,
             "outcome": self.outcome}
        if self.detail:
            d["detail"] = self.detail
        if self.key != self.construct:
            d["key"] = self.key
        if self.facts is not None:
            d["facts"] = self.facts
        return d


class Ctx:
    def __init__(self, prop, tier="quick", level="other", seed=0):
        self.prop = prop
        self.tier = tier
        self.level = level
        self.seed = seed
        self.t0 = time.time()
        self.instances = []
        self.assumptions = []
        self.axioms = []
        self.samples = []
        self.extra = {}
        self.rules_doc = {}
        self.errors = []
        self.repo = None
        self.known = [k for k in load_known() if k.get("property") == prop]
        self.counters = {}
        self.examined = set()      # new helpers a rule has looked into itself (its verdict is not hidden behind them)

    # ------------------------------------------------------------- recording
    def rule(self, rid, doc):
        self.rules_doc[rid] = doc

    def holds(self, rule, construct, where="", detail="", key=""):
        self.instances.append(Instance(rule, construct, where, HOLDS, detail, key))

    def violated(self, rule, construct, where="", detail="", key="", facts=None):
        # the function still calls helpers that are new to the rules and could not be inlined: whatever looks
        # wrong or missing here may be done there, so no verdict is drawn from it
        from .loader import opaque_at
        hidden = [h for h in opaque_at(where) if h not in self.examined]
        if hidden:
            self.inconclusive(rule, construct, where, "%s [not decided: the function calls %s, new to the rules and not inlinable]"
                              % (detail, ", ".join(hidden)), key)
            return
        self.instances.append(Instance(rule, construct, where, VIOLATED, detail, key, facts))

    def inconclusive(self, rule, construct, where="", detail="", key=""):
        self.instances.append(Instance(rule, construct, where, INCONCLUSIVE, detail, key))

    def check(self, ok, rule, construct, where="", detail="", key="", facts=None):
        if ok:
            self.holds(rule, construct, where, detail, key)
        else:
            self.violated(rule, construct, where, detail, key, facts)
        return ok

    def check3(self, state, rule, construct, where="", ok_detail="", bad_detail="", unknown_detail="", key="", facts=None):
        """state True -> HOLDS, False -> VIOLATED (a recognised construct contradicts the oracle),
        None -> INCONCLUSIVE (the code has a shape the rule does not recognise)"""
        if state is True:
            self.holds(rule, construct, where, ok_detail, key)
        elif state is False:
            self.violated(rule, construct, where, bad_detail, key, facts)
        else:
            self.inconclusive(rule, construct, where, unknown_detail or "shape not recognised", key)
        return state

    def assume(self, s):
        if s not in self.assumptions:
            self.assumptions.append(s)

    def axiom(self, s):
        if s not in self.axioms:
            self.axioms.append(s)

    def sample(self, s):
        if len(self.samples) < 40:
            self.samples.append(s)

    def count(self, name, n=1):
        self.counters[name] = self.counters.get(name, 0) + n

    # ------------------------------------------------------------- finishing
    def _is_known(self, inst):
        for k in self.known:
            if k.get("status") != "known":
                continue
            if k.get("rule") == inst.rule and k.get("construct") == inst.construct and \
                    k.get("key", k.get("construct")) == inst.key:
                return k
        return None

    def _coverage_guard(self):
        """a rule that passes because it found nothing to look at has decided nothing: when a rule produces fewer than half
        of the instances it produces on the tree the rules were written against (sa/expected_instances.json), and has not
        said why (no INCONCLUSIVE / VIOLATED instance of that rule), the run is not a verdict"""
        try:
            exp = json.load(open(os.path.join(VERIF, "sa", "expected_instances.json"))).get(self.prop, {})
        except (OSError, ValueError):
            return
        got, explained = {}, set()
        for i in self.instances:
            got[i.rule] = got.get(i.rule, 0) + 1
            if i.outcome in (INCONCLUSIVE, VIOLATED):
                explained.add(i.rule)
        if any(i.outcome == VIOLATED for i in self.instances):
            return          # a reported violation usually ends its rule early: fewer instances are expected then
        explained |= set(self.extra.get("coverage_waived", ()))      # a rule whose part was taken over by another rule says so
        for rule, n in sorted(exp.items()):
            if rule in explained:
                continue
            if got.get(rule, 0) * 2 < n:
                self.instances.append(Instance(rule, "coverage", "", INCONCLUSIVE,
                                               "rule %s produced %d instance(s); %d are expected: the code it covers was not found "
                                               "(renamed, moved or removed), nothing was decided about it" % (rule, got.get(rule, 0), n), "coverage:" + rule))

    def finish(self, error=None, replay=None):
        if error is None:
            self._coverage_guard()
        viol, incon, known_hits = [], [], []
        for i in self.instances:
            if i.outcome == VIOLATED:
                k = self._is_known(i)
                if k is not None:
                    i.outcome = KNOWN_FINDING
                    known_hits.append((i, k))
                else:
                    viol.append(i)
            elif i.outcome == INCONCLUSIVE:
                incon.append(i)
        # a listed known finding that no longer shows up is reported (stdout only)
        stale = []
        hit_ids = {(i.rule, i.construct, i.key) for i, _ in known_hits}
        for k in self.known:
            if k.get("status") == "known" and \
                    (k.get("rule"), k.get("construct"), k.get("key", k.get("construct"))) not in hit_ids:
                stale.append(k)

        replay_paths = []
        lines = []
        for i, k in known_hits:
            lines.append("KNOWN-FINDING: property=%s %s %s at %s: %s" % (
                self.prop, i.rule, i.construct, i.where, k.get("what", i.detail)))
        for k in stale:
            lines.append("note: listed known finding not observed on this tree: %s %s %s" % (
                k.get("rule"), k.get("construct"), k.get("key", "")))
        for i in incon:
            lines.append("INCONCLUSIVE property=%s %s %s at %s: %s" % (self.prop, i.rule, i.construct, i.where, i.detail))
        if error is None:
            for i in viol:
                rp = self._write_replay(i)
                replay_paths.append(rp)
                lines.append("finding: %s %s at %s: %s" % (i.rule, i.construct, i.where, i.detail))
                lines.append("VIOLATION property=%s replay=%s" % (self.prop, rp))

        if error is not None:
            code = 2
            lines.append("ANALYSIS-ERROR property=%s %s" % (self.prop, error))
        elif viol:
            code = 1
        elif incon:
            code = 2
            lines.append("ANALYSIS-ERROR property=%s %d rule instance(s) outside the analysable fragment" % (self.prop, len(incon)))
        elif viol:
            code = 1
        else:
            code = 0

        if replay is not None and error is None:
            # replay mode: only the named instance matters
            want = (replay.get("rule"), replay.get("construct"), replay.get("key", replay.get("construct")))
            still = [i for i in viol if i.ident() == want]
            lines = [l for l in lines if not l.startswith("VIOLATION")]
            if still:
                lines.append("VIOLATION property=%s replay=%s" % (self.prop, replay.get("_path", "")))
                code = 1
            else:
                lines.append("replayed finding no longer present: %s %s" % (want[0], want[1]))
                code = 0 if code != 2 else 2

        self._write_evidence(viol, incon, known_hits, error)
        n_h = sum(1 for i in self.instances if i.outcome == HOLDS)
        lines.append("%s %s: %d rule instances (%d hold, %d violated, %d known findings, %d inconclusive) in %.2fs"
                     % (self.prop, self.tier, len(self.instances), n_h, len(viol), len(known_hits), len(incon),
                        time.time() - self.t0))
        print("\n".join(lines))
        return code

    def _write_replay(self, inst):
        d = {"property": self.prop, "rule": inst.rule, "construct": inst.construct, "key": inst.key,
             "where_at_detection": inst.where, "detail": inst.detail, "facts": inst.facts,
             "oracle": self.rules_doc.get(inst.rule, "")}
        h = hashlib.sha256(json.dumps([self.prop, inst.rule, inst.construct, inst.key]).encode()).hexdigest()[:12]
        os.makedirs(os.path.join(OUT, "replays"), exist_ok=True)
        p = os.path.join(OUT, "replays", "%s-%s.json" % (self.prop, h))
        with open(p, "w") as fh:
            json.dump(d, fh, indent=1, default=str)
        return p

    def _write_evidence(self, viol, incon, known_hits, error):
        insts = [i.as_dict() for i in self.instances]
        decided = [i for i in self.instances if i.outcome in (HOLDS, VIOLATED, KNOWN_FINDING)]
        distinct = {(i.rule, i.construct, i.key) for i in decided}
        cov = {
            "explanation": self.extra.pop("explanation", "") or (
                "static analysis of /repo's working tree: each rule instance below was decided from the "
                "syntax tree / bounded path enumeration / abstract domain named in its rule; nothing was executed"),
            "evaluations": max(1, len(self.instances)),
            "distinct_nontrivial": len(distinct),
            "rule": "one case = one rule instance (rule, construct, key) decided on the parsed tree; "
                    "distinct = different (rule, construct, key); non-trivial = the instance reached a verdict "
                    "HOLDS/VIOLATED (inconclusive ones are not counted)",
            "samples": (self.samples or insts[:8]) or ["(no instance)"],
            "rules": self.rules_doc,
            "instances": insts,
            "counters": self.counters,
            "axioms": self.axioms,
            "units_parsed": self.repo.units() if self.repo is not None else [],
            "known_findings_matched": [i.as_dict() for i, _ in known_hits],
            "inconclusive": len(incon),
        }
        try:
            from . import paths as _p, absint as _a
            cov["analysis_volume"] = {"control_flow_paths_enumerated": _p.STATS["paths"], "path_enumerations": _p.STATS["functions"],
                                      "abstract_interpretation_runs": _a.STATS["runs"], "abstract_states": _a.STATS["states"],
                                      "abstract_transitions": _a.STATS["transitions"]}
        except Exception:  # pragma: no cover
            pass
        try:
            from . import normalize as _n, inline as _i, loader as _l
            # what the loader rewrote before any rule looked at the tree (exact rewrites; counts per kind), which helpers it
            # substituted back into their callers, and which calls stayed opaque (no verdict is drawn in those functions)
            cov["normal_form"] = {"rewrites": {k: v for k, v in sorted(_n.STATS.items()) if isinstance(v, int) and v},
                                  "helpers_inlined": sorted(_i.STATS.get("helpers", ())), "calls_inlined": _i.STATS.get("inlined_calls", 0),
                                  "functions_with_opaque_helper_calls": {path: [{"function": f, "helpers": h} for _, _, f, h in rows]
                                                                         for path, rows in _l.OPAQUE.items() if rows}}
        except Exception:  # pragma: no cover
            pass
        cov.update(self.extra)
        if error is not None:
            cov["analysis_error"] = str(error)
        ev = {"property_id": self.prop, "tier": self.tier, "seed": self.seed, "level": self.level,
              "coverage": cov, "assumptions": self.assumptions, "wall_s": round(time.time() - self.t0, 3),
              "violations": len(viol)}
        os.makedirs(os.path.join(OUT, "evidence"), exist_ok=True)
        p = os.path.join(OUT, "evidence", "%s.json" % self.prop)
        with open(p, "w") as fh:
            json.dump(ev, fh, indent=1, default=str)
        try:
            import jsonschema  # available in the tooling venv; optional
            schema = "/root/.vp/EVIDENCE.schema.json"
            if os.path.exists(schema):
                with open(schema) as fh:
                    jsonschema.validate(json.load(open(p)), json.load(fh))
        except ImportError:
            pass
        except Exception as ex:  # noqa: a failed run (error is set) may have nothing to report; never turn that into a traceback
            if error is None:
                raise
            print("ANALYSIS-ERROR property=%s evidence of the failed run does not validate: %s" % (self.prop, str(ex).splitlines()[0]))
