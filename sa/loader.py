"""Parse /repo's working tree (never import it) and index classes/functions.

Everything here is syntax: modules are parsed with `ast`, class bases are
resolved by name through the `from .x import Y` statements of the defining
module, methods through a simple left-to-right depth-first MRO.
"""
import ast
import hashlib
import os

from .normalize import normalize_module
from .inline import inline_module

REPO = os.environ.get("VERIF_REPO", "/repo")
PKG = "artap"


OPAQUE = {}        # "artap/x.py" -> [(first line, last line, function, [new helpers it still calls])]
_NEW_NAMES = []


def opaque_at(location):
    """the not-inlined new helpers called by the function that contains `artap/x.py:LINE`, or []"""
    try:
        path, line = location.rsplit(":", 1)
        line = int(line)
    except ValueError:
        return []
    best = None
    for lo, hi, fname, names in OPAQUE.get(path, []):
        if lo <= line <= hi and (best is None or lo >= best[0]):
            best = (lo, hi, fname, names)
    return best[3] if best else []


class AnalysisError(Exception):
    """The analysis cannot be carried out (vanished anchor, unknown shape)."""


class ClassInfo:
    def __init__(self, name, module, node):
        self.name = name
        self.module = module
        self.node = node
        self.bases = []
        for b in node.bases:
            if isinstance(b, ast.Name):
                self.bases.append(b.id)
            elif isinstance(b, ast.Attribute):
                self.bases.append(b.attr)
        self.methods = {}
        self.class_attrs = {}
        for st in node.body:
            if isinstance(st, (ast.FunctionDef, ast.AsyncFunctionDef)):
                self.methods[st.name] = st  # last definition wins
            elif isinstance(st, ast.Assign):
                for t in st.targets:
                    if isinstance(t, ast.Name):
                        self.class_attrs[t.id] = st.value
            elif isinstance(st, ast.AnnAssign) and isinstance(st.target, ast.Name) and st.value is not None:
                self.class_attrs[st.target.id] = st.value

    def __repr__(self):
        return "<class %s.%s>" % (self.module.name, self.name)


class Module:
    def __init__(self, name, path, source, comp=True):
        self.name = name
        self.path = path
        self.source = source
        tree = ast.parse(source, filename=path)
        from .inline import has_new_helpers, load_known, _KNOWN_CACHE
        if not _KNOWN_CACHE:
            _KNOWN_CACHE.append(load_known())
        if has_new_helpers(tree, name, _KNOWN_CACHE[0]):
            # helpers unknown to the rules: inline, normalise (which may expose further call sites), inline again
            tree = inline_module(normalize_module(inline_module(tree, name), comp=comp), name)
        self.tree = normalize_module(tree, comp=comp)
        from .inline import new_bare_names, residual_calls
        if not _NEW_NAMES:
            _NEW_NAMES.append(new_bare_names(_KNOWN_CACHE[0]))
        self.opaque = residual_calls(self.tree, _NEW_NAMES[0])
        OPAQUE["%s/%s.py" % (PKG, name)] = self.opaque
        self.digest = hashlib.sha256(source.encode()).hexdigest()[:16]
        self.classes = {}
        self.functions = {}
        self.constants = {}
        self.imports = {}  # local name -> (module, name)
        for st in self.tree.body:
            if isinstance(st, ast.ClassDef):
                self.classes[st.name] = ClassInfo(st.name, self, st)
            elif isinstance(st, (ast.FunctionDef, ast.AsyncFunctionDef)):
                self.functions[st.name] = st
            elif isinstance(st, ast.Assign):
                for t in st.targets:
                    if isinstance(t, ast.Name):
                        self.constants[t.id] = st.value
            elif isinstance(st, ast.ImportFrom):
                for a in st.names:
                    self.imports[a.asname or a.name] = (("." * st.level) + (st.module or ""), a.name)
            elif isinstance(st, ast.Import):
                for a in st.names:
                    self.imports[a.asname or a.name.split(".")[0]] = (a.name, None)

    def relpath(self):
        return os.path.relpath(self.path, REPO)


class Repo:
    def __init__(self, root=None, comp=True):
        """comp=False keeps statement-level comprehensions as written (for rules that interpret them themselves)"""
        self.root = root or REPO
        self.modules = {}
        self.parse_errors = []
        pkgdir = os.path.join(self.root, PKG)
        if not os.path.isdir(pkgdir):
            raise AnalysisError("package directory %s not found" % pkgdir)
        # raw trees of all modules first: the inliner may have to look into a sibling module
        from . import inline as _inline
        _inline.PKG.clear()
        del _NEW_NAMES[:]
        for fn in sorted(os.listdir(pkgdir)):
            if fn.endswith(".py"):
                try:
                    with open(os.path.join(pkgdir, fn), encoding="utf-8") as fh:
                        _inline.PKG[fn[:-3]] = ast.parse(fh.read())
                except SyntaxError:
                    pass
        from . import normalize as _norm
        _norm.PKG_CONSTS.clear()
        for mn, tr in _inline.PKG.items():
            _norm.PKG_CONSTS[mn] = _norm.module_constants(tr)
        _norm.SIGS.clear()
        _norm.SIGS.update(_norm.signatures(list(_inline.PKG.values())))
        _norm.CLASS_CONSTS.clear()
        _norm.CLASS_CONSTS.update(_norm.class_constants(list(_inline.PKG.values())))
        for fn in sorted(os.listdir(pkgdir)):
            if not fn.endswith(".py"):
                continue
            path = os.path.join(pkgdir, fn)
            name = fn[:-3]
            try:
                with open(path, encoding="utf-8") as fh:
                    src = fh.read()
                self.modules[name] = Module(name, path, src, comp=comp)
            except SyntaxError as e:
                self.parse_errors.append((path, str(e)))
        self.classes = {}
        self.class_dups = []
        for m in self.modules.values():
            for c in m.classes.values():
                if c.name in self.classes:
                    self.class_dups.append(c.name)
                self.classes.setdefault(c.name, c)

    # ------------------------------------------------------------------ lookup
    def module(self, name):
        if name not in self.modules:
            raise AnalysisError("module artap/%s.py not found or not parseable" % name)
        return self.modules[name]

    def cls(self, name, module=None):
        if module is not None:
            m = self.module(module)
            if name not in m.classes:
                raise AnalysisError("class %s not found in artap/%s.py" % (name, module))
            return m.classes[name]
        if name not in self.classes:
            raise AnalysisError("class %s not found" % name)
        return self.classes[name]

    def has_cls(self, name):
        return name in self.classes

    def function(self, module, name):
        m = self.module(module)
        if name not in m.functions:
            raise AnalysisError("function %s not found in artap/%s.py" % (name, module))
        return m.functions[name]

    def resolve_base(self, cls, base_name):
        """ClassInfo of a base named in `cls`'s module, or None if external."""
        m = cls.module
        if base_name in m.classes and m.classes[base_name] is not cls:
            return m.classes[base_name]
        imp = m.imports.get(base_name)
        if imp and imp[0].startswith("."):
            modname = imp[0].lstrip(".")
            if modname in self.modules and imp[1] in self.modules[modname].classes:
                return self.modules[modname].classes[imp[1]]
        return None

    def mro(self, cls):
        out, seen = [], set()

        def rec(c):
            if id(c) in seen:
                return
            seen.add(id(c))
            out.append(c)
            for b in c.bases:
                bc = self.resolve_base(c, b)
                if bc is not None:
                    rec(bc)
        rec(cls)
        return out

    def find_method(self, cls, name):
        """(defining ClassInfo, FunctionDef) through the MRO, or None."""
        for c in self.mro(cls):
            if name in c.methods:
                return c, c.methods[name]
        return None

    def method(self, clsname, name, module=None, own=False):
        c = self.cls(clsname, module)
        if own:
            if name not in c.methods:
                raise AnalysisError("method %s.%s not found" % (clsname, name))
            return c.methods[name]
        r = self.find_method(c, name)
        if r is None:
            raise AnalysisError("method %s.%s not found (also not inherited)" % (clsname, name))
        return r[1]

    def subclasses(self, clsname, strict=True):
        base = self.cls(clsname)
        out = []
        for m in self.modules.values():
            for c in m.classes.values():
                if c is base and strict:
                    continue
                if base in self.mro(c):
                    out.append(c)
        return out

    def units(self):
        return [{"module": "artap/%s.py" % m.name, "sha256_16": m.digest,
                 "classes": len(m.classes), "functions": len(m.functions)}
                for m in self.modules.values()]


def where(module, node):
    return "%s:%d" % (module.relpath(), getattr(node, "lineno", 0))
