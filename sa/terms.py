"""Flow-sensitive value terms for locals (a def-use expander).

`Terms(fn)` walks a (normalised) function once, forward, and records before
every statement an environment  local name -> expression  saying what value the
local holds there, written over the values the function started with (its
parameters, attributes of them, the loop variables of the enclosing loops).
Rules use it to look *through* temporaries, aliases and re-assignments:

    velocity = min(velocity, d); velocity = max(velocity, -d); return velocity
    return max(min(velocity, d), -d)

both give the return term  max(min(velocity, d), -d).

What is tracked
  * `n = E`, `n op= E`          n -> E with the locals of E expanded
  * if/else                     joined: equal terms kept, different ones become
                                `A if C else B` when C is a pure expression
  * for loops                   names assigned in the body are unknown at the head and
                                after the loop; the loop variables are bound to element
                                terms over one index:  for i, v in enumerate(X): v -> X[i];
                                zip(A, B): a -> A[k], b -> B[k]; X[a:] shifts the index
  * list builders               acc = []; for v in I: (if C:) acc.append(E)  with nothing else
                                in the body but temporaries  ->  acc -> [E for v in I if C]
  * invalidation                a store to a path, or a method call on a receiver, drops every
                                term that reads an overlapping path (a callee may change the
                                receiver); a local whose *contents* are changed after its
                                definition (x[i] = .., x.append(..)) keeps its origin term but is
                                `dirty`: expand() leaves it as a name, origin() still returns it

A bare name inside a term always denotes the value that name had when the term
was formed and has not been reassigned since (reassignment drops the term).
Calls are expanded like any other expression; two expansions of one call site
keep the source position of that call, so `same_site(a, b)` tells one draw from two.
"""
import ast
import copy

from .astutil import access_path, access_paths_in, paths_overlap, root_name, text, range_bounds, enclosing_loops

PURE_METHODS = {"copy", "items", "keys", "values", "get", "index", "count", "format", "join", "startswith",
                "endswith", "lower", "upper", "strip", "split", "tolist", "astype", "any", "all", "sum", "min", "max",
                "mean", "flatten", "ravel", "transpose", "dot", "reshape", "cursor", "fetchall", "fetchone",
                "uniform", "random", "randint", "choice", "sample", "rand", "compare", "same_box"}
MUTATORS = {"append", "extend", "insert", "remove", "pop", "clear", "sort", "reverse", "update", "add", "discard",
            "setdefault", "popitem", "fill", "resize", "put", "itemset"}
MAX_TERM = 600  # nodes; larger terms are not recorded (the local stays a name)


def _size(node):
    return sum(1 for _ in ast.walk(node))


def term_key(node):
    return ast.dump(node, annotate_fields=False)


def same_site(a, b):
    return getattr(a, "lineno", None) == getattr(b, "lineno", -1) and \
        getattr(a, "col_offset", None) == getattr(b, "col_offset", -1)


class LoopInfo:
    def __init__(self, node):
        self.node = node
        self.index = None      # name of the index (real or synthetic)
        self.lo = None         # expr or None (0)
        self.hi = None         # expr (exclusive) or None when unknown
        self.step = None
        self.elems = {}        # loop variable -> element term over the index
        self.seqs = []         # the iterated sequence expressions (expanded)
        self.synthetic = False

    def __repr__(self):
        return "<loop %s in [%s,%s) %s>" % (self.index, text(self.lo) if self.lo else "0",
                                            text(self.hi) if self.hi else "?",
                                            {k: text(v) for k, v in self.elems.items()})


class _Subst(ast.NodeTransformer):
    def __init__(self, env, dirty, skip=()):
        self.env = env
        self.dirty = dirty
        self.skip = set(skip)

    def visit_Name(self, n):
        if isinstance(n.ctx, ast.Load) and n.id in self.env and n.id not in self.skip:
            # a local whose contents were changed is still the same object when it is a plain alias of a path
            if n.id not in self.dirty or access_path(self.env[n.id]) is not None:
                return copy.deepcopy(self.env[n.id])
        return n

    def _object(self, name):
        """the local is bound to a freshly constructed object (`ind = Individual(v)`): its identity matters, so a read of its
        state `ind.costs[0]` is not rewritten into a read from a second construction"""
        v = self.env.get(name)
        return isinstance(v, ast.Call) and isinstance(v.func, (ast.Name, ast.Attribute)) and \
            (access_path(v.func) or "").split(".")[-1][:1].isupper()

    def visit_Attribute(self, n):
        r = n
        while isinstance(r, (ast.Attribute, ast.Subscript)):
            r = r.value
        if isinstance(r, ast.Name) and isinstance(r.ctx, ast.Load) and r.id in self.env and r.id not in self.skip and self._object(r.id):
            # expand the index expressions only
            return _Subst(self.env, self.dirty, self.skip | {r.id}).generic_visit(n)
        return self.generic_visit(n)

    visit_Subscript = visit_Attribute

    def visit_Lambda(self, n):
        bound = {a.arg for a in n.args.args}
        return _Subst({k: v for k, v in self.env.items() if k not in bound}, self.dirty, self.skip).generic_visit(n)

    def _comp(self, n):
        bound = set()
        for g in n.generators:
            for t in ast.walk(g.target):
                if isinstance(t, ast.Name):
                    bound.add(t.id)
        inner = _Subst({k: v for k, v in self.env.items() if k not in bound}, self.dirty, self.skip)
        return inner.generic_visit(n)

    visit_ListComp = visit_SetComp = visit_GeneratorExp = visit_DictComp = _comp


def _islice_as_slice(it):
    """itertools.islice(X, a, b) read as the elements X[a:b] (the loop rules ask which elements are visited;
    a sequence changed while it is iterated is outside every rule's fragment either way)"""
    def conv(e):
        if isinstance(e, ast.Call) and (access_path(e.func) or "").split(".")[-1] == "islice" and not e.keywords and 2 <= len(e.args) <= 3:
            none = lambda a: isinstance(a, ast.Constant) and a.value is None
            if len(e.args) == 2:
                lo, hi = None, e.args[1]
            else:
                lo, hi = e.args[1], e.args[2]
            lo = None if lo is None or none(lo) or (isinstance(lo, ast.Constant) and lo.value == 0) else lo
            hi = None if hi is None or none(hi) else hi
            if lo is None and hi is None:
                return e.args[0]
            return ast.copy_location(ast.Subscript(value=e.args[0], slice=ast.Slice(lower=lo, upper=hi, step=None), ctx=ast.Load()), e)
        return e
    it = conv(it)
    if isinstance(it, ast.Call) and isinstance(it.func, ast.Name) and it.func.id in ("zip", "enumerate"):
        it = copy.copy(it)
        it.args = [conv(a) for a in it.args]
    return it


def _simplify_index(seq, idx):
    """X[a:][k] -> X[k + a];  list(X)[k] stays"""
    if isinstance(seq, ast.Subscript) and isinstance(seq.slice, ast.Slice) and seq.slice.step is None \
            and seq.slice.upper is None and seq.slice.lower is not None:
        lo = seq.slice.lower
        return _simplify_index(seq.value, ast.BinOp(left=idx, op=ast.Add(), right=copy.deepcopy(lo)))
    if isinstance(seq, ast.Subscript) and isinstance(seq.slice, ast.Slice) and seq.slice.step is None \
            and seq.slice.lower is None:
        # X[:b][k] -> X[k] (k below b by construction of the loop range)
        return _simplify_index(seq.value, idx)
    return ast.Subscript(value=copy.deepcopy(seq), slice=idx, ctx=ast.Load())


def _len_of(seq):
    """length expression of an iterated sequence, X[a:] -> len(X) - a, X[:b] -> b (unknown min) """
    if isinstance(seq, ast.Subscript) and isinstance(seq.slice, ast.Slice) and seq.slice.step is None:
        if seq.slice.upper is None and seq.slice.lower is not None:
            inner = _len_of(seq.value)
            if inner is None:
                return None
            return ast.BinOp(left=inner, op=ast.Sub(), right=copy.deepcopy(seq.slice.lower))
        return None
    if isinstance(seq, ast.Call) and isinstance(seq.func, ast.Name) and seq.func.id == "list" and len(seq.args) == 1:
        return _len_of(seq.args[0])
    return ast.Call(func=ast.Name(id="len", ctx=ast.Load()), args=[copy.deepcopy(seq)], keywords=[])


def _without_len(term, path):
    """copy of term with len(<path>) replaced by a constant (its other reads of path remain)"""
    class L(ast.NodeTransformer):
        def visit_Call(self, n):
            if isinstance(n.func, ast.Name) and n.func.id == "len" and len(n.args) == 1 and access_path(n.args[0]) == path:
                return ast.Constant(value=0)
            return self.generic_visit(n)
    return L().visit(copy.deepcopy(term))


def _min_len(lens):
    """the smallest of lengths of the form L - c (same L, constant c), else None"""
    from . import poly
    if not lens or any(l is None for l in lens):
        return None
    try:
        forms = [poly.norm(l) for l in lens]
    except poly.NotPolynomial:
        return None
    best = None
    for l, f in zip(lens, forms):
        d = f - forms[0]
        if not d.is_const():
            return None
        if best is None or d.const() < best[0]:
            best = (d.const(), l)
    return best[1]


class Terms:
    def __init__(self, fn, self_effects=None):
        """self_effects: optional callable(method_name) -> set of self attributes the method may
        change, or None when unknown (then every self.* term is dropped at the call)."""
        self.fn = fn
        self.self_effects = self_effects
        self.params = [a.arg for a in fn.args.posonlyargs + fn.args.args + fn.args.kwonlyargs]
        self.selfn = self.params[0] if self.params else None
        self.before = {}     # id(stmt) -> (env, dirty)
        self.after = {}      # id(stmt) -> (env, dirty) after the statement (None if it does not fall through)
        self.loops = {}      # id(For) -> LoopInfo
        self.returns = []    # (Return stmt, expanded term or None)
        self.raised = {}     # id(For) -> raised list-builder comprehension per accumulator name
        self._k = 0
        self._encl = None
        self.bindings = {}
        self._cur = None
        env, dirty = self._block(fn.body, {}, set())
        self.final = (env, dirty)

    # ------------------------------------------------------------------ API
    def expand(self, expr, at=None, env=None, dirty=None, skip=(), elems=False):
        """copy of expr with the locals replaced by their terms before statement `at`;
        elems=True also replaces the variables of the enclosing `for v in X` loops by X[index]"""
        if env is None:
            if at is None:
                env, dirty = {}, set()
            else:
                if id(at) not in self.before:
                    return copy.deepcopy(expr)
                env, dirty = self.before[id(at)]
        out = _Subst(env, dirty or set(), skip).visit(copy.deepcopy(expr))
        if elems and at is not None:
            if self._encl is None:
                self._encl = enclosing_loops(self.fn)
            emap = {}
            for lp in self._encl.get(id(at), []):
                info = self.loops.get(id(lp))
                if info is not None:
                    for v, el in getattr(info, "valid_elems", {}).items():
                        if v not in env:
                            emap[v] = el
            if emap:
                out = _Subst(emap, set(), skip).visit(out)
        ast.fix_missing_locations(out)
        return out

    def expand_after(self, expr, stmt):
        st = self.after.get(id(stmt))
        if not st or st[0] is None:
            return copy.deepcopy(expr)
        return self.expand(expr, env=st[0], dirty=st[1])

    def origin(self, name, at):
        """what the local was last bound to before `at` - also when the term is no longer valid for
        re-evaluation (contents changed, or a callee it mentions may have changed state since): the
        *origin* of the value.  Only when the local has one binding textually before `at`."""
        env, _ = self.before.get(id(at), ({}, set()))
        if name in env:
            return env[name]
        hist = [(ln, t) for ln, t in self.bindings.get(name, []) if ln <= getattr(at, "lineno", 0)]
        if len(hist) == 1 and len(self.bindings.get(name, [])) == 1:
            return hist[0][1]
        return None

    def single_exit(self):
        return None

    def is_dirty(self, name, at):
        return name in self.before.get(id(at), ({}, set()))[1]

    def return_terms(self):
        return [t for _, t in self.returns]

    def loop_of(self, node):
        return self.loops.get(id(node))

    # ------------------------------------------------------------- internals
    def _fresh_index(self, node):
        self._k += 1
        return "__k%d" % getattr(node, "lineno", self._k)

    def _kill(self, env, dirty, paths, names=()):
        if not paths and not names:
            return
        paths = list(paths)
        names = set(names)
        perms = [p[6:] for p in paths if p.startswith("~perm:")]
        elems = [p[6:] for p in paths if p.startswith("~elem:")]
        paths = [p for p in paths if not p.startswith("~")]
        for p in elems:
            r = p.split(".")[0].split("[")[0]
            if r in env and r not in names:
                dirty.add(r)
            cut = [i for i, ch in enumerate(p) if ch in ".["]
            for n in list(env):
                t = env[n]
                for i in cut:
                    t = _without_len(t, p[:i])
                if n != r and any(paths_overlap(p, q) for q in access_paths_in(t)):
                    del env[n]
                    dirty.discard(n)
        for p in perms:
            if p in env:
                dirty.add(p)
            for n in list(env):
                if n != p and any(paths_overlap(p, r) for r in access_paths_in(_without_len(env[n], p))):
                    del env[n]
                    dirty.discard(n)
        for p in paths:
            # the contents of a local changed: its origin term no longer describes its value
            r = p.split(".")[0].split("[")[0]
            if r in env and r not in names:
                dirty.add(r)
        for n in list(env):
            if n in names:
                del env[n]
                dirty.discard(n)
                continue
            reads = access_paths_in(env[n])
            if any(paths_overlap(p, r) for p in paths for r in reads) or any(
                    (r == nm or r.startswith(nm + ".") or r.startswith(nm + "[")) for nm in names for r in reads):
                del env[n]
                dirty.discard(n)

    def _call_effects(self, node, env, dirty):
        """invalidate for the calls inside an expression/statement (not nested defs)"""
        for c in ast.walk(node):
            if not isinstance(c, ast.Call) or not isinstance(c.func, ast.Attribute):
                continue
            recv, meth = c.func.value, c.func.attr
            if meth in PURE_METHODS:
                continue
            p = access_path(recv)
            if meth in ("sort", "reverse") and p is not None:
                # a permutation in place: the length (and nothing else) survives
                for n in list(env):
                    if n != p and any(paths_overlap(p, r) for r in access_paths_in(_without_len(env[n], p))):
                        del env[n]
                        dirty.discard(n)
                if p in env:
                    dirty.add(p)
                continue
            if isinstance(recv, ast.Name):
                if recv.id in ("np", "numpy", "math", "random", "json", "itertools", "functools", "time", "sqlite3",
                               "copy", "os", "sys", "spatial", "rnd"):
                    continue
                if recv.id == self.selfn:
                    eff = self.self_effects(meth) if self.self_effects else None
                    if eff is None:
                        # unknown callee on self: drop every self.* reader
                        for n in list(env):
                            if any(r == self.selfn or r.startswith(self.selfn + ".") for r in access_paths_in(env[n])):
                                del env[n]
                                dirty.discard(n)
                    else:
                        self._kill(env, dirty, [self.selfn + "." + a for a in eff])
                    continue
                # a method on a local: its contents may change
                if recv.id in env:
                    dirty.add(recv.id)
                self._kill(env, dirty, [recv.id] if recv.id not in env else [], ())
                # readers of the local's contents
                for n in list(env):
                    if n != recv.id and any(paths_overlap(recv.id, r) for r in access_paths_in(env[n])):
                        del env[n]
                        dirty.discard(n)
                continue
            if p is not None:
                self._kill(env, dirty, [p])
            else:
                r = root_name(recv)
                if r and r in env:
                    dirty.add(r)

    def _store(self, target, env, dirty, keep_len=True):
        """effects of storing into a non-name target; a store below a container (X[i] = v,
        X[i].a = v) leaves len(X) unchanged unless keep_len is False (del, slice stores)"""
        if isinstance(target, (ast.Tuple, ast.List)):
            for e in target.elts:
                self._store(e, env, dirty, keep_len)
            return
        if isinstance(target, ast.Starred):
            self._store(target.value, env, dirty, keep_len)
            return
        if isinstance(target, ast.Name):
            self._kill(env, dirty, (), [target.id])
            return
        if isinstance(target, ast.Subscript) and isinstance(target.slice, ast.Slice):
            keep_len = False
        r = root_name(target)
        p = access_path(target)
        base = access_path(target.value) if isinstance(target, (ast.Subscript, ast.Attribute)) else None
        paths = [x for x in (p, base) if x]
        if r and r in env:
            dirty.add(r)
            # the expanded path is changed as well (aliases)
            ex = self.expand(target.value if isinstance(target, (ast.Subscript, ast.Attribute)) else target,
                             env=env, dirty=set())
            ep = access_path(ex)
            if ep:
                paths.append(ep)
        if not paths and r:
            paths = [r]

        def reads_of(term):
            if keep_len:
                for pp in paths:
                    # every proper prefix container keeps its length
                    cut = [i for i, ch in enumerate(pp) if ch in ".["]
                    for i in cut:
                        term = _without_len(term, pp[:i])
            return access_paths_in(term)
        for n in list(env):
            if n == r:
                continue
            if any(paths_overlap(pp, q) for pp in paths for q in reads_of(env[n])):
                del env[n]
                dirty.discard(n)

    def _bind(self, name, term, env, dirty):
        self._kill(env, dirty, (), [name])
        if term is not None and _size(term) <= MAX_TERM:
            env[name] = term
        # history of bindings: what a local was bound to, even after the recipe stopped being re-evaluable
        self.bindings.setdefault(name, []).append((getattr(self._cur, "lineno", 0), term))

    def _assigned_in(self, stmts):
        names, paths = set(), set()
        for st in stmts:
            for n in ast.walk(st):
                if isinstance(n, (ast.FunctionDef, ast.AsyncFunctionDef, ast.Lambda)):
                    continue
                if isinstance(n, ast.Name) and isinstance(n.ctx, (ast.Store, ast.Del)):
                    names.add(n.id)
                elif isinstance(n, (ast.Subscript, ast.Attribute)) and isinstance(n.ctx, (ast.Store, ast.Del)):
                    keep = isinstance(n.ctx, ast.Store) and not (isinstance(n, ast.Subscript) and isinstance(n.slice, ast.Slice))
                    pre = "~elem:" if keep else ""
                    p = access_path(n)
                    if p:
                        paths.add(pre + p)
                    b = access_path(n.value)
                    if b:
                        paths.add(pre + b)
                    elif root_name(n):
                        paths.add(root_name(n))
                elif isinstance(n, ast.Call) and isinstance(n.func, ast.Attribute) and n.func.attr not in PURE_METHODS:
                    p = access_path(n.func.value)
                    if p == self.selfn and self.self_effects is not None:
                        eff = self.self_effects(n.func.attr)
                        if eff is not None:
                            paths |= {self.selfn + "." + a for a in eff}
                            continue
                    if p and n.func.attr in ("sort", "reverse"):
                        paths.add("~perm:" + p)
                    elif p:
                        paths.add(p)
                    elif root_name(n.func.value):
                        paths.add(root_name(n.func.value))
        return names, paths

    def _join(self, a, b, test=None):
        if a is None:
            return b
        if b is None:
            return a
        (ea, da), (eb, db) = a, b
        env, dirty = {}, set()
        pure = test is not None and not any(isinstance(n, ast.Call) and not (
            isinstance(n.func, ast.Name) and n.func.id in ("len", "abs", "min", "max", "isinstance", "float", "int"))
            for n in ast.walk(test))
        for n in set(ea) | set(eb):
            ta, tb = ea.get(n), eb.get(n)
            if ta is not None and tb is not None and term_key(ta) == term_key(tb):
                env[n] = ta
                if n in da or n in db:
                    dirty.add(n)
            elif ta is not None and tb is not None and pure and n not in da and n not in db \
                    and _size(ta) + _size(tb) + _size(test) <= MAX_TERM:
                env[n] = ast.IfExp(test=copy.deepcopy(test), body=copy.deepcopy(ta), orelse=copy.deepcopy(tb))
                ast.copy_location(env[n], test)
                ast.fix_missing_locations(env[n])
        return env, dirty

    def _block(self, stmts, env, dirty):
        for st in stmts:
            self.before[id(st)] = (dict(env), set(dirty))
            self._cur = st
            r = self._stmt(st, env, dirty)
            self.after[id(st)] = (dict(r[0]), set(r[1])) if r[0] is not None else (None, None)
            if r[0] is None:
                return None, None
            env, dirty = r
        return env, dirty

    def _stmt(self, st, env, dirty):
        if isinstance(st, ast.Assign):
            term = self.expand(st.value, env=env, dirty=dirty)
            self._call_effects(st.value, env, dirty)
            for t in st.targets:
                if isinstance(t, ast.Name):
                    self._bind(t.id, copy.deepcopy(term), env, dirty)
                else:
                    self._store(t, env, dirty)
                    # PATH = local: from here on the local and PATH are the same object; the local becomes an alias
                    # of the path (its own recipe is kept only until this point)
                    if isinstance(st.value, ast.Name) and st.value.id in env and len(st.targets) == 1 \
                            and not isinstance(env[st.value.id], (ast.Constant, ast.Name)) and access_path(env[st.value.id]) is None:
                        tp = self.expand(t, env=env, dirty=set())
                        if access_path(tp) is not None and not any(isinstance(x, ast.Name) and x.id == st.value.id for x in ast.walk(tp)):
                            al = copy.deepcopy(tp)
                            for x in ast.walk(al):
                                if hasattr(x, "ctx"):
                                    x.ctx = ast.Load()
                            env[st.value.id] = al
                            dirty.discard(st.value.id)
            return env, dirty
        if isinstance(st, ast.AnnAssign):
            if st.value is not None and isinstance(st.target, ast.Name):
                term = self.expand(st.value, env=env, dirty=dirty)
                self._call_effects(st.value, env, dirty)
                self._bind(st.target.id, term, env, dirty)
            elif st.value is not None:
                self._call_effects(st.value, env, dirty)
                self._store(st.target, env, dirty)
            return env, dirty
        if isinstance(st, ast.AugAssign):
            if isinstance(st.target, ast.Name):
                cur = ast.Name(id=st.target.id, ctx=ast.Load())
                e = ast.BinOp(left=cur, op=st.op, right=st.value)
                ast.copy_location(e, st)
                ast.fix_missing_locations(e)
                term = self.expand(e, env=env, dirty=dirty)
                self._call_effects(st.value, env, dirty)
                if st.target.id in dirty:
                    self._bind(st.target.id, None, env, dirty)
                else:
                    self._bind(st.target.id, term, env, dirty)
            else:
                self._call_effects(st.value, env, dirty)
                self._store(st.target, env, dirty)
            return env, dirty
        if isinstance(st, ast.Expr):
            self._call_effects(st.value, env, dirty)
            return env, dirty
        if isinstance(st, ast.Return):
            self.returns.append((st, self.expand(st.value, env=env, dirty=dirty) if st.value is not None else None))
            return None, None
        if isinstance(st, (ast.Raise, ast.Continue, ast.Break)):
            return None, None
        if isinstance(st, ast.Delete):
            for t in st.targets:
                self._store(t, env, dirty, keep_len=False)
            return env, dirty
        if isinstance(st, ast.If):
            test = self.expand(st.test, env=env, dirty=dirty)
            self._call_effects(st.test, env, dirty)
            a = self._block(st.body, dict(env), set(dirty))
            b = self._block(st.orelse, dict(env), set(dirty)) if st.orelse else (dict(env), set(dirty))
            a = a if a[0] is not None else None
            b = b if b[0] is not None else None
            j = self._join(a, b, test)
            return j if j is not None else (None, None)
        if isinstance(st, (ast.For, ast.AsyncFor)):
            return self._for(st, env, dirty)
        if isinstance(st, ast.While):
            names, paths = self._assigned_in(st.body + st.orelse)
            self._kill(env, dirty, paths, names)
            self._call_effects(st.test, env, dirty)
            self._block(st.body, dict(env), set(dirty))
            if st.orelse:
                self._block(st.orelse, dict(env), set(dirty))
            self._kill(env, dirty, paths, names)
            return env, dirty
        if isinstance(st, (ast.With, ast.AsyncWith)):
            for it in st.items:
                self._call_effects(it.context_expr, env, dirty)
                if it.optional_vars is not None:
                    self._store(it.optional_vars, env, dirty)
            r = self._block(st.body, env, dirty)
            return r
        if isinstance(st, ast.Try):
            names, paths = self._assigned_in(st.body)
            start = (dict(env), set(dirty))
            a = self._block(st.body, dict(env), set(dirty))
            if a[0] is not None and st.orelse:
                a = self._block(st.orelse, a[0], a[1])
            outs = [a if a[0] is not None else None]
            for h in st.handlers:
                he, hd = dict(start[0]), set(start[1])
                self._kill(he, hd, paths, names)
                if h.name:
                    self._kill(he, hd, (), [h.name])
                r = self._block(h.body, he, hd)
                outs.append(r if r[0] is not None else None)
            j = None
            for o in outs:
                j = self._join(j, o) if (j is not None and o is not None) else (j or o)
            if st.finalbody:
                if j is None:
                    fe, fd = dict(start[0]), set(start[1])
                    self._kill(fe, fd, paths, names)
                    self._block(st.finalbody, fe, fd)
                    return None, None
                return self._block(st.finalbody, j[0], j[1])
            return j if j is not None else (None, None)
        if isinstance(st, (ast.FunctionDef, ast.AsyncFunctionDef, ast.ClassDef)):
            self._kill(env, dirty, (), [st.name])
            return env, dirty
        if isinstance(st, (ast.Import, ast.ImportFrom)):
            for a in st.names:
                self._kill(env, dirty, (), [(a.asname or a.name).split(".")[0]])
            return env, dirty
        if isinstance(st, (ast.Global, ast.Nonlocal)):
            self._kill(env, dirty, (), st.names)
            return env, dirty
        if isinstance(st, ast.Assert):
            return env, dirty
        return env, dirty

    # ------------------------------------------------------------------ loops
    def _loop_info(self, st, env, dirty):
        info = LoopInfo(st)
        it = _islice_as_slice(self.expand(st.iter, env=env, dirty=dirty))
        tgt = st.target

        def set_range(rb):
            info.lo, info.hi, info.step = rb

        rb = range_bounds(it)
        if rb and isinstance(tgt, ast.Name):
            info.index = tgt.id
            set_range(rb)
            return info
        # enumerate(X[, start])
        if isinstance(it, ast.Call) and isinstance(it.func, ast.Name) and it.func.id == "enumerate" and it.args \
                and isinstance(tgt, ast.Tuple) and len(tgt.elts) == 2 and isinstance(tgt.elts[0], ast.Name):
            start = None
            if len(it.args) > 1:
                start = it.args[1]
            for k in it.keywords:
                if k.arg == "start":
                    start = k.value
            seq = it.args[0]
            info.index = tgt.elts[0].id
            info.seqs = [seq]
            n = _len_of(seq)
            if start is None:
                info.lo, info.hi = None, n
                idx = ast.Name(id=info.index, ctx=ast.Load())
            else:
                info.lo = copy.deepcopy(start)
                info.hi = ast.BinOp(left=n, op=ast.Add(), right=copy.deepcopy(start)) if n is not None else None
                idx = ast.BinOp(left=ast.Name(id=info.index, ctx=ast.Load()), op=ast.Sub(), right=copy.deepcopy(start))
            self._bind_elem(info, tgt.elts[1], seq, idx)
            return info
        # zip(A, B, ...)
        if isinstance(it, ast.Call) and isinstance(it.func, ast.Name) and it.func.id == "zip" and it.args \
                and isinstance(tgt, ast.Tuple) and len(tgt.elts) == len(it.args) and not it.keywords:
            ranges = [(i, range_bounds(a)) for i, a in enumerate(it.args)]
            ridx = [(i, r) for i, r in ranges if r and isinstance(tgt.elts[i], ast.Name)
                    and (r[0] is None or text(r[0]) == "0") and r[2] is None]
            if ridx:
                i0, r0 = ridx[0]
                info.index = tgt.elts[i0].id
                info.lo, info.hi, info.step = None, None, None  # min of the lengths: unknown in general
                info.zip_range_hi = r0[1]
            else:
                info.index = self._fresh_index(st)
                info.synthetic = True
                lens = [_len_of(a) for a in it.args]
                info.zip_lens = lens
                info.hi = _min_len(lens)
            for i, (t, a) in enumerate(zip(tgt.elts, it.args)):
                if ridx and i == ridx[0][0]:
                    continue
                info.seqs.append(a)
                if range_bounds(a):
                    continue
                self._bind_elem(info, t, a, ast.Name(id=info.index, ctx=ast.Load()))
            return info
        # plain sequence
        if isinstance(tgt, (ast.Name, ast.Tuple)):
            info.index = self._fresh_index(st)
            info.synthetic = True
            info.seqs = [it]
            info.lo, info.hi = None, _len_of(it) if access_path(it) or isinstance(it, ast.Subscript) else None
            if access_path(it) is not None or (isinstance(it, ast.Subscript) and access_path(it.value) is not None):
                self._bind_elem(info, tgt, it, ast.Name(id=info.index, ctx=ast.Load()))
        return info

    def _bind_elem(self, info, target, seq, idx):
        # only sequences that are stable access paths (or slices of them) give element terms
        base = seq
        while isinstance(base, ast.Subscript) and isinstance(base.slice, ast.Slice):
            base = base.value
        if access_path(base) is None:
            return
        el = _simplify_index(seq, idx)
        ast.fix_missing_locations(ast.copy_location(el, info.node))
        if isinstance(target, ast.Name):
            info.elems[target.id] = el
        elif isinstance(target, ast.Tuple):
            for j, t in enumerate(target.elts):
                if isinstance(t, ast.Name):
                    e = ast.Subscript(value=copy.deepcopy(el), slice=ast.Constant(value=j), ctx=ast.Load())
                    ast.fix_missing_locations(ast.copy_location(e, info.node))
                    info.elems[t.id] = e

    def _for(self, st, env, dirty):
        self._call_effects(st.iter, env, dirty)
        info = self._loop_info(st, env, dirty)
        self.loops[id(st)] = info
        names, paths = self._assigned_in(st.body + st.orelse)
        tnames = {n.id for n in ast.walk(st.target) if isinstance(n, ast.Name)}
        pre_env = dict(env)
        pre_dirty = set(dirty)
        self._kill(env, dirty, paths, names | tnames)
        benv, bdirty = dict(env), set(dirty)
        # element terms are valid only if the sequence is not changed in the body
        info.valid_elems = {}
        for v, el in info.elems.items():
            reads = access_paths_in(el)
            if v in names:
                continue
            if any(paths_overlap(p, r) for p in paths for r in reads if not r.startswith("__k") and r != info.index):
                continue
            info.valid_elems[v] = el
            if info.synthetic:
                # `for v in X` keeps its name; the element term stays available as loop_of(node).valid_elems
                continue
            benv[v] = el
        self._block(st.body, benv, bdirty)
        if st.orelse:
            self._block(st.orelse, dict(env), set(dirty))
        self._raise_builder(st, info, pre_env, pre_dirty, env, dirty)
        return env, dirty

    def _raise_builder(self, st, info, pre_env, pre_dirty, env, dirty):
        """acc = []; for ..: acc.append(E) -> acc = [E for ..] after the loop"""
        if st.orelse:
            return
        for acc, init in list(pre_env.items()):
            if acc in pre_dirty:
                continue
            is_dict = (isinstance(init, ast.Dict) and not init.keys) or (
                isinstance(init, ast.Call) and isinstance(init.func, ast.Name) and init.func.id == "dict" and not init.args and not init.keywords)
            if is_dict:
                self._raise_dict(st, acc, pre_env, pre_dirty, env, dirty)
                continue
            # acc = 0 / 0.0; for ..: acc += E  ->  acc = sum([E for ..])  (sum starts from 0 and adds left to right, like the loop)
            is_sum = isinstance(init, ast.Constant) and isinstance(init.value, (int, float)) and not isinstance(init.value, bool) and init.value == 0
            if not is_sum and not ((isinstance(init, ast.List) and not init.elts) or (
                    isinstance(init, ast.Call) and isinstance(init.func, ast.Name) and init.func.id == "list" and not init.args and not init.keywords)):
                continue
            tnames = {n.id for n in ast.walk(st.target) if isinstance(n, ast.Name)}
            self._skip = tnames | set(pre_env)
            elt = self._builder_body(st.body, acc, mode="sum" if is_sum else "append")
            if elt is None:
                continue
            conds, e, at = elt
            if self._aliased_later(st.body, at, e):
                continue
            body_env, body_dirty = self.before[id(at)]
            # expand the temporaries of the body, but keep the loop variables
            keep = {k: v for k, v in body_env.items() if k not in tnames and k not in pre_env}
            e2 = self.expand(e, env=keep, dirty=body_dirty)
            ifs = [self.expand(c, env=keep, dirty=body_dirty) for c in conds]
            # values bound before the loop and left alone by it (a step width, a bound) are part of the term as well
            loop_names, _ = self._assigned_in(st.body)
            outer = {k: v for k, v in pre_env.items() if k not in loop_names and k not in tnames and k != acc and k not in pre_dirty}
            if outer:
                e2 = self.expand(e2, env=outer, dirty=pre_dirty)
                ifs = [self.expand(c, env=outer, dirty=pre_dirty) for c in ifs]
            it = self.expand(st.iter, env=pre_env, dirty=pre_dirty)
            comp = ast.ListComp(elt=e2, generators=[ast.comprehension(target=copy.deepcopy(st.target), iter=it,
                                                                       ifs=ifs, is_async=0)])
            if is_sum:
                comp = ast.Call(func=ast.Name(id="sum", ctx=ast.Load()), args=[comp], keywords=[])
            ast.copy_location(comp, st)
            ast.fix_missing_locations(comp)
            if _size(comp) <= MAX_TERM:
                env[acc] = comp
                dirty.discard(acc)
                self.raised.setdefault(id(st), {})[acc] = comp

    @staticmethod
    def _aliased_later(body, at, e):
        """a local object that is appended and then still used in the same iteration may change after
        the append (the list holds the object, not its value at that time): the element term would be wrong"""
        assigned = set()
        for s_ in body:
            for n_ in ast.walk(s_):
                if isinstance(n_, ast.Name) and isinstance(n_.ctx, ast.Store):
                    assigned.add(n_.id)
        locs = {n_.id for n_ in ast.walk(e) if isinstance(n_, ast.Name) and n_.id in assigned}
        if not locs:
            return False
        seen = False

        def rec(stmts):
            nonlocal seen
            for s_ in stmts:
                if s_ is at:
                    seen = True
                    continue
                if seen:
                    for n_ in ast.walk(s_):
                        # a store into the local, a mutating method on it, or handing it (itself) to a callee
                        if isinstance(n_, (ast.Subscript, ast.Attribute, ast.Name)) and isinstance(getattr(n_, "ctx", None), (ast.Store, ast.Del)) \
                                and root_name(n_) in locs:
                            return True
                        if isinstance(n_, ast.Call):
                            f_ = n_.func
                            if isinstance(f_, ast.Attribute) and isinstance(f_.value, ast.Name) and f_.value.id in locs and f_.attr not in PURE_METHODS:
                                return True
                            if any(isinstance(a_, ast.Name) and a_.id in locs for a_ in list(n_.args) + [k_.value for k_ in n_.keywords]):
                                return True
                    continue
                for f_ in ("body", "orelse", "finalbody"):
                    b_ = getattr(s_, f_, None)
                    if isinstance(b_, list) and b_ and isinstance(b_[0], ast.stmt) and rec(b_):
                        return True
            return False
        return rec(body)

    def _raise_dict(self, st, acc, pre_env, pre_dirty, env, dirty):
        """acc = {}; for ..: acc[K] = V (nothing else but temporaries) -> acc = {K: V for ..}"""
        store = None
        for s_ in st.body:
            if isinstance(s_, ast.Assign) and all(isinstance(t, ast.Name) and t.id != acc for t in s_.targets):
                continue
            if isinstance(s_, ast.Assign) and len(s_.targets) == 1 and isinstance(s_.targets[0], ast.Subscript) \
                    and isinstance(s_.targets[0].value, ast.Name) and s_.targets[0].value.id == acc and store is None:
                store = s_
                continue
            return
        if store is None:
            return
        cnt = sum(1 for s_ in st.body for n in ast.walk(s_) if isinstance(n, ast.Name) and n.id == acc)
        if cnt != 1:
            return
        if self._aliased_later(st.body, store, store.value):
            return
        tnames = {n.id for n in ast.walk(st.target) if isinstance(n, ast.Name)}
        body_env, body_dirty = self.before[id(store)]
        keep = {k: v for k, v in body_env.items() if k not in tnames and k not in pre_env}
        kx = self.expand(store.targets[0].slice, env=keep, dirty=body_dirty)
        vx = self.expand(store.value, env=keep, dirty=body_dirty)
        it = self.expand(st.iter, env=pre_env, dirty=pre_dirty)
        comp = ast.DictComp(key=kx, value=vx, generators=[ast.comprehension(target=copy.deepcopy(st.target), iter=it, ifs=[], is_async=0)])
        ast.copy_location(comp, st)
        ast.fix_missing_locations(comp)
        if _size(comp) <= MAX_TERM:
            env[acc] = comp
            dirty.discard(acc)
            self.raised.setdefault(id(st), {})[acc] = comp

    def _builder_body(self, body, acc, nested=False, mode="append"):
        """([conditions], element expr, append stmt) if the body only computes temporaries and appends once
        (mode "sum": adds once, `acc += E`)"""
        found = []

        def rec(stmts, conds):
            for s in stmts:
                if isinstance(s, ast.If) and not s.orelse and len(s.body) == 1 and isinstance(s.body[0], ast.Continue) and stmts is body \
                        and not any(isinstance(n_, ast.Name) and n_.id == acc for n_ in ast.walk(s.test)):
                    # `if C: continue` guards everything that follows in this iteration
                    conds.append(ast.UnaryOp(op=ast.Not(), operand=s.test))
                    continue
                if not any(isinstance(n_, ast.Name) and n_.id == acc for n_ in ast.walk(s)):
                    # the statement does not touch the accumulator: it cannot change its value
                    if any(isinstance(n_, (ast.Break, ast.Continue, ast.Return)) for n_ in ast.walk(s)) and not isinstance(s, (ast.For, ast.While)):
                        return False
                    continue
                if mode == "sum":
                    if isinstance(s, ast.AugAssign) and isinstance(s.target, ast.Name) and s.target.id == acc and isinstance(s.op, ast.Add) \
                            and not any(isinstance(n_, ast.Name) and n_.id == acc for n_ in ast.walk(s.value)):
                        found.append((list(conds), s.value, s))
                        continue
                    if not isinstance(s, ast.If):
                        return False
                if isinstance(s, ast.Expr) and isinstance(s.value, ast.Call) and isinstance(s.value.func, ast.Attribute) \
                        and isinstance(s.value.func.value, ast.Name) and s.value.func.value.id == acc:
                    if s.value.func.attr == "append" and len(s.value.args) == 1:
                        found.append((list(conds), s.value.args[0], s))
                        continue
                    return False
                if isinstance(s, ast.If) and not s.orelse:
                    if any(isinstance(n, ast.Name) and n.id == acc for n in ast.walk(s.test)):
                        return False
                    if rec(s.body, conds + [s.test]) is False:
                        return False
                    continue
                if isinstance(s, ast.If) and s.orelse and not conds:
                    # both branches append exactly once: the element is a conditional expression
                    a = self._builder_body(s.body, acc, nested=True, mode=mode)
                    b = self._builder_body(s.orelse, acc, nested=True, mode=mode)
                    if a is None or b is None or a[0] or b[0]:
                        return False
                    ea = self.expand(a[1], at=a[2], skip=self._skip)
                    eb = self.expand(b[1], at=b[2], skip=self._skip)
                    e = ast.IfExp(test=copy.deepcopy(s.test), body=ea, orelse=eb)
                    ast.fix_missing_locations(ast.copy_location(e, s))
                    found.append((list(conds), e, s))
                    continue
                if isinstance(s, ast.Pass):
                    continue
                return False
            return True
        if rec(body, []) is False or len(found) != 1:
            return None
        # acc must not be read elsewhere in the body
        cnt = sum(1 for s in body for n in ast.walk(s) if isinstance(n, ast.Name) and n.id == acc)
        if mode == "sum":
            napp = sum(1 for s in body for n in ast.walk(s) if isinstance(n, ast.AugAssign) and isinstance(n.target, ast.Name) and n.target.id == acc)
        else:
            napp = sum(1 for s in body for n in ast.walk(s) if isinstance(n, ast.Attribute) and n.attr == "append"
                       and isinstance(n.value, ast.Name) and n.value.id == acc)
        if cnt != napp or (napp != 1 and not isinstance(found[0][2], ast.If)):
            return None
        return found[0]


# ----------------------------------------------------------------- helpers
def specialise(term, consts):
    """partially evaluate the conditional expressions of a term for given values of names:
    tests `name == lit`, `name != lit`, `name is None`, `name is not None`, `not T`, and/or of those"""
    UNK = object()

    def ev(t):
        if isinstance(t, ast.Compare) and len(t.ops) == 1 and isinstance(t.left, ast.Name) and t.left.id in consts:
            v = consts[t.left.id]
            c = t.comparators[0]
            if isinstance(c, ast.Constant):
                if isinstance(t.ops[0], ast.Eq):
                    return v == c.value
                if isinstance(t.ops[0], ast.NotEq):
                    return v != c.value
                if isinstance(t.ops[0], ast.Is):
                    return v is c.value
                if isinstance(t.ops[0], ast.IsNot):
                    return v is not c.value
            if isinstance(c, (ast.Tuple, ast.List, ast.Set)) and all(isinstance(e, ast.Constant) for e in c.elts):
                vals = [e.value for e in c.elts]
                if isinstance(t.ops[0], ast.In):
                    return v in vals
                if isinstance(t.ops[0], ast.NotIn):
                    return v not in vals
        if isinstance(t, ast.UnaryOp) and isinstance(t.op, ast.Not):
            r = ev(t.operand)
            return UNK if r is UNK else (not r)
        if isinstance(t, ast.BoolOp):
            rs = [ev(v) for v in t.values]
            if isinstance(t.op, ast.And):
                if any(r is False for r in rs):
                    return False
                return True if all(r is True for r in rs) else UNK
            if any(r is True for r in rs):
                return True
            return False if all(r is False for r in rs) else UNK
        if isinstance(t, ast.Name) and t.id in consts:
            return bool(consts[t.id])
        return UNK

    class S(ast.NodeTransformer):
        def visit_IfExp(self, n):
            r = ev(n.test)
            if r is True:
                return self.visit(n.body)
            if r is False:
                return self.visit(n.orelse)
            return self.generic_visit(n)
    return S().visit(copy.deepcopy(term))


class PathEnv(Terms):
    """value terms along ONE enumerated path: the straight-line sequence of its simple statements
    (no joins, so nothing is lost at branches).  `at(stmt)` gives the environment before the first
    occurrence of that statement on the path."""

    def __init__(self, fn, events, base=None):
        self.fn = fn
        self.self_effects = None
        self.params = [a.arg for a in fn.args.posonlyargs + fn.args.args + fn.args.kwonlyargs]
        self.selfn = self.params[0] if self.params else None
        self.before, self.after, self.loops, self.returns, self.raised = {}, {}, {}, [], {}
        self._k = 0
        self._encl = None
        self.bindings = {}
        self._cur = None
        env, dirty = (dict(base[0]), set(base[1])) if base else ({}, set())
        self.occ = []   # (stmt, env, dirty) in path order
        self.at_event = []   # (env, dirty) before every event of the path, by position
        for e in events:
            self.at_event.append((dict(env), set(dirty)))
            if e.kind == "iter":
                tn = [n.id for n in ast.walk(e.node.target) if isinstance(n, ast.Name)] if hasattr(e.node, "target") else []
                self._kill(env, dirty, (), tn)
                if isinstance(e.node, (ast.For, ast.AsyncFor)):
                    it_ = e.node.iter
                    k_ = getattr(e, "val", None)
                    if isinstance(it_, (ast.Tuple, ast.List)) and isinstance(k_, int) and not isinstance(k_, bool) and 0 <= k_ < len(it_.elts):
                        # a loop over a literal: in its k-th round the variable IS the k-th element
                        el_, tg_ = it_.elts[k_], e.node.target
                        if isinstance(tg_, ast.Name) and not any(isinstance(c_, ast.Call) for c_ in ast.walk(el_)):
                            env[tg_.id] = self.expand(el_, env=env, dirty=dirty)
                        elif isinstance(tg_, ast.Tuple) and isinstance(el_, (ast.Tuple, ast.List)) and len(tg_.elts) == len(el_.elts) \
                                and all(isinstance(t_, ast.Name) for t_ in tg_.elts) and not any(isinstance(c_, ast.Call) for c_ in ast.walk(el_)):
                            for t_, x_ in zip(tg_.elts, el_.elts):
                                env[t_.id] = self.expand(x_, env=env, dirty=dirty)
                        continue
                    info = self._loop_info(e.node, env, dirty)
                    if not info.synthetic:
                        for v, el in info.elems.items():
                            env[v] = el
                continue
            if e.kind not in ("stmt", "return"):
                continue
            st = e.node
            snap = (dict(env), set(dirty))
            self.before.setdefault(id(st), snap)
            self.occ.append((st, snap[0], snap[1]))
            if isinstance(st, ast.Expr) and isinstance(st.value, ast.Call) and isinstance(st.value.func, ast.Attribute) and st.value.func.attr == "append" \
                    and isinstance(st.value.func.value, ast.Name) and len(st.value.args) == 1 and not st.value.keywords \
                    and isinstance(env.get(st.value.func.value.id), ast.List) and st.value.func.value.id not in dirty \
                    and not any(isinstance(c_, ast.Call) for c_ in ast.walk(st.value.args[0])):
                # a list display built up element by element along the path: x = []; x.append(a); x.append(b)  is  [a, b]
                x = st.value.func.value.id
                new_l = ast.List(elts=list(env[x].elts) + [self.expand(st.value.args[0], env=env, dirty=dirty)], ctx=ast.Load())
                ast.copy_location(new_l, st)
                ast.fix_missing_locations(new_l)
                # readers of x's earlier contents are out of date
                for n_ in list(env):
                    if n_ != x and any(paths_overlap(x, r_) for r_ in access_paths_in(env[n_])):
                        del env[n_]
                        dirty.discard(n_)
                env[x] = new_l
            elif isinstance(st, (ast.Assign, ast.AugAssign, ast.AnnAssign, ast.Expr, ast.Delete)):
                r = self._stmt(st, env, dirty)
                env, dirty = r
            elif isinstance(st, ast.Return):
                self.returns.append((st, self.expand(st.value, env=env, dirty=dirty) if st.value is not None else None))
        self.final = (env, dirty)

    def expand_at(self, expr, i, skip=()):
        """expr with the locals as they are before the i-th event of the path"""
        env, dirty = self.at_event[i]
        return self.expand(expr, env=env, dirty=dirty, skip=skip)


def fuse(term):
    """[E(x) for x in [F(y) for y in I if D(y)] if C(x)]  ->  [E(F(y)) for y in I if D(y) if C(F(y))] (recursively)"""
    class F(ast.NodeTransformer):
        def visit_ListComp(self, n):
            n = self.generic_visit(n)
            for g in n.generators:
                # for i, v in enumerate(X)  ->  for i in range(len(X)) with v := X[i]
                it = g.iter
                if isinstance(it, ast.Call) and isinstance(it.func, ast.Name) and it.func.id == "enumerate" and len(it.args) == 1 and not it.keywords \
                        and isinstance(g.target, ast.Tuple) and len(g.target.elts) == 2 and all(isinstance(t, ast.Name) for t in g.target.elts) \
                        and access_path(it.args[0]) is not None:
                    i_, v_ = g.target.elts[0].id, g.target.elts[1].id
                    el = ast.Subscript(value=copy.deepcopy(it.args[0]), slice=ast.Name(id=i_, ctx=ast.Load()), ctx=ast.Load())
                    sub = _Subst({v_: el}, set())
                    n.elt = sub.visit(n.elt)
                    g.ifs = [sub.visit(c) for c in g.ifs]
                    g.target = ast.Name(id=i_, ctx=ast.Store())
                    g.iter = ast.Call(func=ast.Name(id="range", ctx=ast.Load()), args=[
                        ast.Call(func=ast.Name(id="len", ctx=ast.Load()), args=[copy.deepcopy(it.args[0])], keywords=[])], keywords=[])
                    ast.fix_missing_locations(n)
            tg0 = n.generators[0].target if len(n.generators) == 1 else None
            it0 = n.generators[0].iter if len(n.generators) == 1 else None
            mapping = None
            if isinstance(it0, (ast.ListComp, ast.GeneratorExp)) and len(it0.generators) == 1:
                if isinstance(tg0, ast.Name):
                    mapping = {tg0.id: it0.elt}
                elif isinstance(tg0, ast.Tuple) and isinstance(it0.elt, ast.Tuple) and len(tg0.elts) == len(it0.elt.elts) \
                        and all(isinstance(t, ast.Name) for t in tg0.elts):
                    mapping = {t.id: e for t, e in zip(tg0.elts, it0.elt.elts)}
            if mapping is not None:
                inner = it0
                if True:
                    bound = {t.id for t in ast.walk(inner.generators[0].target) if isinstance(t, ast.Name)}
                    free_outer = {t.id for t in ast.walk(n.elt) if isinstance(t, ast.Name)} | \
                                 {t.id for c in n.generators[0].ifs for t in ast.walk(c) if isinstance(t, ast.Name)}
                    if not (bound & (free_outer - set(mapping))):
                        sub = _Subst(mapping, set())
                        elt = sub.visit(copy.deepcopy(n.elt))
                        ifs = [copy.deepcopy(c) for c in inner.generators[0].ifs] + [sub.visit(copy.deepcopy(c)) for c in n.generators[0].ifs]
                        out = ast.ListComp(elt=elt, generators=[ast.comprehension(
                            target=copy.deepcopy(inner.generators[0].target), iter=copy.deepcopy(inner.generators[0].iter), ifs=ifs, is_async=0)])
                        ast.copy_location(out, n)
                        ast.fix_missing_locations(out)
                        return out
            return n
    return F().visit(copy.deepcopy(term))


def canonical(term):
    """fused, alpha-renamed text of a term: equal for equal values however the code spells them"""
    return text(alpha(fuse(term)))


def alpha(term):
    """rename the variables bound by comprehensions to _0, _1, ... in order of appearance"""
    counter = [0]

    class A(ast.NodeTransformer):
        def _comp(self, n):
            mapping = {}
            for g in n.generators:
                for t in ast.walk(g.target):
                    if isinstance(t, ast.Name) and t.id not in mapping:
                        mapping[t.id] = "_%d" % counter[0]
                        counter[0] += 1

            class R(ast.NodeTransformer):
                def visit_Name(self, m):
                    if m.id in mapping:
                        return ast.copy_location(ast.Name(id=mapping[m.id], ctx=m.ctx), m)
                    return m
            first = n.generators[0].iter
            n2 = R().visit(n)
            n2.generators[0].iter = first
            return self.generic_visit(n2)
        visit_ListComp = visit_SetComp = visit_GeneratorExp = visit_DictComp = _comp
    out = A().visit(copy.deepcopy(term))
    ast.fix_missing_locations(out)
    return out


def self_effects_of(repo, cls, depth=4):
    """callable(method name) -> set of attributes of self the method may change (through the class
    hierarchy, following calls to other methods of self), or None when that cannot be told"""
    cache = {}

    def effects(meth, d=depth):
        if meth in cache:
            return cache[meth]
        r = repo.find_method(cls, meth)
        if r is None or d <= 0:
            return None
        cache[meth] = set()          # recursion guard
        fn = r[1]
        if any(isinstance(d, ast.Name) and d.id == "staticmethod" for d in fn.decorator_list):
            return cache[meth]       # no access to the instance at all
        ps = [a.arg for a in fn.args.posonlyargs + fn.args.args]
        if not ps:
            cache[meth] = set()
            return cache[meth]
        me = ps[0]
        out = set()
        for n in ast.walk(fn):
            if isinstance(n, (ast.Attribute, ast.Subscript)) and isinstance(n.ctx, (ast.Store, ast.Del)):
                p = access_path(n) or ""
                b = access_path(n.value) or ""
                for q in (p, b):
                    if q.startswith(me + "."):
                        out.add(q[len(me) + 1:].split(".")[0].split("[")[0])
                if root_name(n) == me and not (p.startswith(me + ".") or b.startswith(me + ".")):
                    cache[meth] = None
                    return None
            elif isinstance(n, ast.Call) and isinstance(n.func, ast.Attribute):
                recv = n.func.value
                rp = access_path(recv) or ""
                if isinstance(recv, ast.Name) and recv.id == me:
                    sub = effects(n.func.attr, d - 1)
                    if sub is None:
                        cache[meth] = None
                        return None
                    out |= sub
                elif rp.startswith(me + ".") and n.func.attr not in PURE_METHODS:
                    out.add(rp[len(me) + 1:].split(".")[0].split("[")[0])
                # self handed to a foreign callee
            if isinstance(n, ast.Call):
                for a in list(n.args) + [k.value for k in n.keywords]:
                    if isinstance(a, ast.Name) and a.id == me:
                        cache[meth] = None
                        return None
        cache[meth] = out
        return out
    return effects


def index_maps(term):
    """[E(v) for v in X][k] -> E(X[k]);  [E(v) for v in X[:b]][k] -> E(X[k])  (elementwise-mapped copies)"""
    class M(ast.NodeTransformer):
        def visit_Subscript(self, n):
            n = self.generic_visit(n)
            c = n.value
            if isinstance(c, ast.ListComp) and not isinstance(n.slice, ast.Slice) and len(c.generators) == 1 and not c.generators[0].ifs \
                    and isinstance(c.generators[0].target, ast.Name):
                src = c.generators[0].iter
                if isinstance(src, ast.Subscript) and isinstance(src.slice, ast.Slice) and src.slice.lower is None and src.slice.step is None:
                    src = src.value
                if access_path(src) is not None:
                    el = ast.Subscript(value=copy.deepcopy(src), slice=copy.deepcopy(n.slice), ctx=ast.Load())
                    out = _Subst({c.generators[0].target.id: el}, set()).visit(copy.deepcopy(c.elt))
                    ast.copy_location(out, n)
                    ast.fix_missing_locations(out)
                    return out
            return n
    return M().visit(copy.deepcopy(term))


def value_term(fn, self_effects=None):
    """one term for the value a function returns, also when it has several returns: the returns of a
    tree-shaped body become assignments to one result local (else branches made explicit), whose final term is a
    conditional expression over the guards.  None when the body is not tree-shaped or a guard is impure."""
    from .inline import _tree_shaped, _assign_returns
    T = Terms(fn, self_effects=self_effects)
    rets = [t for _, t in T.returns]
    if len(rets) == 1:
        return rets[0]
    body = [s_ for s_ in fn.body if not (isinstance(s_, ast.Expr) and isinstance(s_.value, ast.Constant))]
    if not rets or not _tree_shaped(body):
        return None

    def make(expr):
        return [ast.Assign(targets=[ast.Name(id="__ret", ctx=ast.Store())], value=expr if expr is not None else ast.Constant(value=None))]
    new_body = _assign_returns(copy.deepcopy(body), make)
    f2 = ast.FunctionDef(name=fn.name, args=fn.args, body=new_body + [ast.Return(value=ast.Name(id="__ret", ctx=ast.Load()))],
                         decorator_list=[], returns=None, type_comment=None)
    ast.copy_location(f2, fn)
    for n in ast.walk(f2):
        if isinstance(n, (ast.expr, ast.stmt)) and not hasattr(n, "lineno"):
            ast.copy_location(n, fn)
    ast.fix_missing_locations(f2)
    T2 = Terms(f2, self_effects=self_effects)
    r2 = [t for _, t in T2.returns]
    if len(r2) == 1 and not (isinstance(r2[0], ast.Name) and r2[0].id == "__ret"):
        return r2[0]
    return None



def index_of_map(term):
    """[E(v) for v in X][k]  ->  E(X[k])   (no filter, one generator, X a plain path, k not a slice): the k-th element of a list
    built by mapping over X is the image of the k-th element of X"""
    class M(ast.NodeTransformer):
        def visit_Subscript(self, n):
            self.generic_visit(n)
            v = n.value
            if isinstance(v, ast.ListComp) and len(v.generators) == 1 and not v.generators[0].ifs and isinstance(v.generators[0].target, ast.Name) \
                    and access_path(v.generators[0].iter) is not None and not isinstance(n.slice, ast.Slice):
                g = v.generators[0]
                el = ast.Subscript(value=copy.deepcopy(g.iter), slice=n.slice, ctx=ast.Load())
                out = _Subst({g.target.id: el}, set()).visit(copy.deepcopy(v.elt))
                return ast.fix_missing_locations(ast.copy_location(out, n))
            return n
    return M().visit(copy.deepcopy(term))
