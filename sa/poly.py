"""D-AFF: normal forms of polynomial / rational expressions over named atoms.

A rational expression is a pair (num, den) of polynomials with Fraction
coefficients; a polynomial is {monomial: coef} with monomial a sorted tuple of
(atom, exponent).  Atoms are the normalised texts of sub-expressions that are
not + - * / ** of other things (names, attributes, subscripts, calls - calls
have their arguments normalised recursively, so sqrt(f / g) == sqrt((f)/(g))).
Equality is decided by cross-multiplication.  Float literals are converted to
exact fractions (0.5 -> 1/2).
"""
import ast
from fractions import Fraction

from .astutil import text, access_path


class NotPolynomial(Exception):
    pass


def P(c=0):
    return {(): Fraction(c)} if c != 0 else {}


def atom(name):
    return {((name, 1),): Fraction(1)}


def padd(a, b, s=1):
    out = dict(a)
    for m, c in b.items():
        out[m] = out.get(m, 0) + s * c
        if out[m] == 0:
            del out[m]
    return out


def pmul(a, b):
    out = {}
    for m1, c1 in a.items():
        for m2, c2 in b.items():
            d = dict(m1)
            for k, e in m2:
                d[k] = d.get(k, 0) + e
            m = tuple(sorted((k, e) for k, e in d.items() if e != 0))
            out[m] = out.get(m, 0) + c1 * c2
            if out[m] == 0:
                del out[m]
    return out


def ppow(a, n):
    out = P(1)
    for _ in range(n):
        out = pmul(out, a)
    return out


class R:
    """rational function num/den"""

    def __init__(self, num, den=None):
        self.num = num
        self.den = den if den is not None else P(1)

    def __add__(self, o):
        return R(padd(pmul(self.num, o.den), pmul(o.num, self.den)), pmul(self.den, o.den))

    def __sub__(self, o):
        return R(padd(pmul(self.num, o.den), pmul(o.num, self.den), -1), pmul(self.den, o.den))

    def __mul__(self, o):
        return R(pmul(self.num, o.num), pmul(self.den, o.den))

    def __truediv__(self, o):
        if not o.num:
            raise NotPolynomial("division by zero")
        return R(pmul(self.num, o.den), pmul(self.den, o.num))

    def __neg__(self):
        return R(padd({}, self.num, -1), self.den)

    def __eq__(self, o):
        return pmul(self.num, o.den) == pmul(o.num, self.den)

    def is_const(self):
        try:
            self.const()
            return True
        except NotPolynomial:
            return False

    def const(self):
        if all(m == () for m in self.num) and all(m == () for m in self.den) and self.den:
            return self.num.get((), Fraction(0)) / self.den[()]
        raise NotPolynomial("not constant")

    def __repr__(self):
        return "R(%s / %s)" % (self.num, self.den)


def norm(node, env=None, atoms=None):
    """rational normal form of an expression; env maps names to R values / nodes"""
    env = env or {}
    if isinstance(node, ast.Constant):
        v = node.value
        if isinstance(v, bool) or not isinstance(v, (int, float)):
            raise NotPolynomial("non-numeric literal")
        return R(P(Fraction(v).limit_denominator(10 ** 12) if isinstance(v, float) else Fraction(v)))
    if isinstance(node, ast.Name) and node.id in env:
        v = env[node.id]
        return v if isinstance(v, R) else norm(v, env, atoms)
    if isinstance(node, ast.UnaryOp) and isinstance(node.op, ast.USub):
        return -norm(node.operand, env, atoms)
    if isinstance(node, ast.UnaryOp) and isinstance(node.op, ast.UAdd):
        return norm(node.operand, env, atoms)
    if isinstance(node, ast.BinOp):
        if isinstance(node.op, ast.Pow):
            b = norm(node.left, env, atoms)
            e = norm(node.right, env, atoms)
            if e.is_const() and e.const().denominator == 1 and 0 <= e.const() <= 200:
                n = int(e.const())
                return R(ppow(b.num, n), ppow(b.den, n))
            if e.is_const() and e.const().denominator == 1 and -50 <= e.const() < 0:
                n = -int(e.const())
                return R(ppow(b.den, n), ppow(b.num, n))
            return R(atom("(%s)**(%s)" % (canon_key(node.left, env), canon_key(node.right, env))))
        a, b = norm(node.left, env, atoms), norm(node.right, env, atoms)
        if isinstance(node.op, ast.Add):
            return a + b
        if isinstance(node.op, ast.Sub):
            return a - b
        if isinstance(node.op, ast.Mult):
            return a * b
        if isinstance(node.op, ast.Div):
            return a / b
        raise NotPolynomial("operator %s" % type(node.op).__name__)
    if isinstance(node, ast.Call):
        nm = access_path(node.func) or text(node.func)
        short = nm.split(".")[-1]
        args = ",".join(canon_key(a, env) for a in node.args)
        if node.keywords:
            args += "," + ",".join("%s=%s" % (k.arg, canon_key(k.value, env)) for k in node.keywords)
        if short == "float" and len(node.args) == 1:
            return norm(node.args[0], env, atoms)
        return R(atom("%s(%s)" % (short if nm.startswith(("np.", "math.", "numpy.")) else nm, args)))
    if isinstance(node, (ast.Name, ast.Attribute, ast.Subscript)):
        p = access_path(node)
        if p in ("np.pi", "math.pi", "numpy.pi", "pi"):
            return R(atom("pi"))
        if isinstance(node, ast.Subscript) and not isinstance(node.slice, ast.Slice):
            base = access_path(node.value) or text(node.value)
            try:
                idx = norm(node.slice, env, atoms)
                return R(atom("%s[%s]" % (base, key_of(idx))))
            except NotPolynomial:
                pass
        return R(atom(text(node)))
    raise NotPolynomial("expression %s" % type(node).__name__)


def key_of(r):
    """canonical text of a rational normal form"""
    def poly(p):
        return "+".join("%s*%s" % (c, "*".join("%s^%d" % (k, e) for k, e in m)) for m, c in sorted(p.items(), key=lambda kv: str(kv[0])))
    return "(%s)/(%s)" % (poly(r.num), poly(r.den)) if r.den != P(1) else "(%s)" % poly(r.num)


def canon_key(node, env=None):
    try:
        return key_of(norm(node, env))
    except NotPolynomial:
        return text(node)


def equal(a, b, env=None):
    """structural equality of two expressions modulo field axioms; None if not normalisable"""
    try:
        return norm(a, env) == norm(b, env)
    except NotPolynomial:
        return None


def parse(expr):
    return ast.parse(expr, mode="eval").body
