#!/usr/bin/env python3
"""Regenerate MANIFEST.json from the table below (keeps it schema-valid)."""
import json, os, sys
HERE = os.path.dirname(os.path.dirname(os.path.abspath(__file__)))
sys.path.insert(0, HERE)
from sa.registry import CLAIMS, NOT_APPLICABLE  # noqa

props = [json.loads(l) for l in open(os.path.join(HERE, "properties.jsonl"))]
checks, na = [], []
for p in props:
    pid = p["id"]
    if pid in CLAIMS:
        c = CLAIMS[pid]
        checks.append({
            "property_id": pid,
            "quick_cmd": "./check %s" % pid,
            "thorough_cmd": "./check %s --tier thorough" % pid,
            "evidence_file": "/verif/evidence/%s.json" % pid,
            "replay_cmd_template": "./check %s --replay {path}" % pid,
            "engine": "sa",
            "level_claimed": {"category": c.get("category", "other"), "text": c["text"], "design_ref": "DESIGN.md section 6, %s" % pid},
            "level_note": c["note"],
            "technique": c["technique"],
        })
    else:
        na.append({"property_id": pid, "reason": NOT_APPLICABLE.get(pid, "check not built yet (work in progress; DESIGN.md section 10 gives the build order)")})
m = {
    "version": 1,
    "setup_cmd": "true",
    "hooks": {"guard": "ARTAP_FRAMEWORK_ARTAP_VERIF",
              "enable": "no hooks are needed: every check parses /repo's working tree; the guard is declared and unused",
              "baseline_off_cmd": "cd /repo && /venv/bin/python -m pytest -ra -q -p no:cacheprovider --timeout=900 --continue-on-collection-errors",
              "source_commits": [], "add_only": True},
    "engines": [{"name": "sa", "path": "sa/", "serves_properties": [c["property_id"] for c in checks],
                 "kind_free_text": "repository-specific static analysis over Python ast (stdlib only): class-hierarchy resolution, "
                                   "bounded path enumeration with guard feasibility facts, finite-automaton extraction by abstract "
                                   "interpretation (order/sign/magnitude domains), affine index checks, outward-rounded interval analysis"}],
    "checks": checks,
    "notes": "Static analysis only: no check imports or runs artap. Exit 0 holds / 1 VIOLATION / 2 ANALYSIS-ERROR (anchor vanished or code outside the analysable fragment; never a verdict). Genuine defects repaired in /repo by fix: commits are listed in known_findings.jsonl.",
    "not_applicable": na,
}
json.dump(m, open(os.path.join(HERE, "MANIFEST.json"), "w"), indent=1)
try:
    import jsonschema
    jsonschema.validate(m, json.load(open("/root/.vp/MANIFEST.schema.json")))
    print("MANIFEST valid: %d checks, %d not applicable" % (len(checks), len(na)))
except ImportError:
    print("written (jsonschema not available to validate)")
