#!/bin/bash
# usage: tools/rf.sh CNN  -- run one check on the clean tree and on the refactored scratch copies /tmp/verif-rf-*
cd /verif
for t in /repo /tmp/verif-rf-*; do
  [ -d "$t/artap" ] || continue
  out=$(VERIF_REPO=$t VERIF_OUT=/tmp/verif-rf-out ./check $1 2>&1); rc=$?
  echo "== $(basename $t): exit=$rc"
  if [ $rc -ne 0 ]; then echo "$out" | grep -v "^KNOWN" | grep -E "^(finding|INCONCLUSIVE|ANALYSIS|Traceback|  File|[A-Za-z]+Error)" | cut -c1-${2:-300} | head -12; fi
done
