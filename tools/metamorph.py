#!/usr/bin/env python3
"""Metamorphic self-test of the checkers: apply exact, mechanical, behaviour-preserving
source transformations to a scratch copy of /repo/artap and run every check on it.
The property holds on every variant (it holds on the tree and the transformation is
exact), so an exit status 1 is a false alarm of the check; exit 2 means the rules
could not follow the spelling.

Transformations (each applied to every function of every module):
  rename     every local variable v of a function becomes v_mm (parameters, globals, names used in
             nested functions/lambdas/comprehensions of the function are left alone)
  negate     if C: A else: B   ->  if not C: B else: A        (an else branch must exist)
  flip       a < b -> b > a, a == b -> b == a, ...   when both operands are free of calls
  demorgan   not (A and B) -> (not A) or (not B), not (A or B) -> (not A) and (not B)
  enum       for v in X: ..    ->  for _mm_i, v in enumerate(X): ..
  temp       a pure sub-expression (subscript/attribute chain of depth >= 2, no calls) that is read
             in an assignment's value is first bound to a fresh local
  flatten    if C: ...return/raise/continue/break  else: REST   ->  if C: ...; REST
  unflatten  if C: ...return (last statement of the if, no else) ; REST  ->  if C: ... else: REST
  ifexp / comp / guard / tuple / while / inline1 / extract: see the docstrings of the t_* functions (conditional expressions,
             comprehensions, early-continue guards, tuple assignments, counted while loops, inlined single-use
             temporaries, loop bodies extracted into new helper functions)

usage: metamorph.py [--only T1,T2] [--checks C01,C02] [--keep DIR] [--pytest]
"""
import ast
import copy
import json
import os
import shutil
import subprocess
import sys
import tempfile
from concurrent.futures import ThreadPoolExecutor

VERIF = os.path.dirname(os.path.dirname(os.path.abspath(__file__)))
REPO = os.environ.get("METAMORPH_REPO", "/repo")


def functions(tree):
    for n in ast.walk(tree):
        if isinstance(n, (ast.FunctionDef, ast.AsyncFunctionDef)):
            yield n


def own_nodes(fn):
    """nodes of fn not inside nested functions / lambdas / comprehensions / classes"""
    todo = list(ast.iter_child_nodes(fn))
    while todo:
        n = todo.pop()
        yield n
        if isinstance(n, (ast.FunctionDef, ast.AsyncFunctionDef, ast.Lambda, ast.ClassDef, ast.ListComp, ast.SetComp, ast.DictComp, ast.GeneratorExp)):
            continue
        todo.extend(ast.iter_child_nodes(n))


def has_call(e):
    return any(isinstance(n, (ast.Call, ast.Await, ast.Yield, ast.YieldFrom, ast.NamedExpr)) for n in ast.walk(e))


# ------------------------------------------------------------------ rename
def t_rename(tree):
    for fn in functions(tree):
        params = {a.arg for a in ast.walk(fn.args) if isinstance(a, ast.arg)}
        declared = set()
        for n in own_nodes(fn):
            if isinstance(n, (ast.Global, ast.Nonlocal)):
                declared |= set(n.names)
        stored = set()
        for n in own_nodes(fn):
            if isinstance(n, ast.Name) and isinstance(n.ctx, (ast.Store, ast.Del)):
                stored.add(n.id)
            if isinstance(n, ast.ExceptHandler) and n.name:
                declared.add(n.name)
            if isinstance(n, (ast.Import, ast.ImportFrom)):
                for a in n.names:
                    declared.add((a.asname or a.name).split(".")[0])
            if isinstance(n, (ast.FunctionDef, ast.AsyncFunctionDef, ast.ClassDef)):
                declared.add(n.name)
        # names that occur inside nested scopes must keep their spelling
        nested = set()
        for n in ast.walk(fn):
            if n is fn:
                continue
            if isinstance(n, (ast.FunctionDef, ast.AsyncFunctionDef, ast.Lambda, ast.ClassDef, ast.ListComp, ast.SetComp, ast.DictComp, ast.GeneratorExp)):
                for m in ast.walk(n):
                    if isinstance(m, ast.Name):
                        nested.add(m.id)
        ren = {v: v + "_mm" for v in stored - params - declared - nested if not v.startswith("__")}
        if not ren:
            continue
        for n in own_nodes(fn):
            if isinstance(n, ast.Name) and n.id in ren:
                n.id = ren[n.id]
    return tree


# ------------------------------------------------------------------ negate
def t_negate(tree):
    class T(ast.NodeTransformer):
        def visit_If(self, n):
            self.generic_visit(n)
            if n.orelse:
                return ast.copy_location(ast.If(test=ast.UnaryOp(op=ast.Not(), operand=n.test), body=n.orelse, orelse=n.body), n)
            return n
    return T().visit(tree)


# ------------------------------------------------------------------ flip
_FLIP = {ast.Lt: ast.Gt, ast.Gt: ast.Lt, ast.LtE: ast.GtE, ast.GtE: ast.LtE, ast.Eq: ast.Eq, ast.NotEq: ast.NotEq}


def t_flip(tree):
    class T(ast.NodeTransformer):
        def visit_Compare(self, n):
            self.generic_visit(n)
            if len(n.ops) == 1 and type(n.ops[0]) in _FLIP and not has_call(n.left) and not has_call(n.comparators[0]):
                return ast.copy_location(ast.Compare(left=n.comparators[0], ops=[_FLIP[type(n.ops[0])]()], comparators=[n.left]), n)
            return n
    return T().visit(tree)


# ------------------------------------------------------------------ demorgan
def t_demorgan(tree):
    class T(ast.NodeTransformer):
        def visit_UnaryOp(self, n):
            self.generic_visit(n)
            if isinstance(n.op, ast.Not) and isinstance(n.operand, ast.BoolOp):
                b = n.operand
                op = ast.Or() if isinstance(b.op, ast.And) else ast.And()
                return ast.copy_location(ast.BoolOp(op=op, values=[ast.UnaryOp(op=ast.Not(), operand=v) for v in b.values]), n)
            return n

        def _test(self, n):
            # only in boolean context (if / while tests): `not (A and B)` is a bool either way
            n.test = self.visit(n.test)
            n.body = [self.generic_visit(s) if False else s for s in n.body]
            return n

    class Ctx(ast.NodeTransformer):
        def visit_If(self, n):
            self.generic_visit(n)
            n.test = T().visit(n.test)
            return n

        def visit_While(self, n):
            self.generic_visit(n)
            n.test = T().visit(n.test)
            return n
    return Ctx().visit(tree)


# ------------------------------------------------------------------ enum
def t_enum(tree):
    k = [0]

    class T(ast.NodeTransformer):
        def visit_For(self, n):
            self.generic_visit(n)
            it = n.iter
            if isinstance(it, ast.Call) and isinstance(it.func, ast.Name) and it.func.id in ("range", "enumerate", "zip"):
                return n
            k[0] += 1
            idx = ast.Name(id="_mm_i%d" % k[0], ctx=ast.Store())
            n.target = ast.Tuple(elts=[idx, n.target], ctx=ast.Store())
            n.iter = ast.Call(func=ast.Name(id="enumerate", ctx=ast.Load()), args=[it], keywords=[])
            return n
    return T().visit(tree)


# ------------------------------------------------------------------ temp
def t_temp(tree):
    k = [0]

    def depth(e):
        d = 0
        while isinstance(e, (ast.Attribute, ast.Subscript)):
            d += 1
            e = e.value
        return d if isinstance(e, ast.Name) else -1

    def rewrite_block(stmts):
        out = []
        for s in stmts:
            for f in ("body", "orelse", "finalbody"):
                b = getattr(s, f, None)
                if isinstance(b, list) and b and isinstance(b[0], ast.stmt):
                    setattr(s, f, rewrite_block(b))
            if isinstance(s, ast.Try):
                for h in s.handlers:
                    h.body = rewrite_block(h.body)
            lazy = (ast.Lambda, ast.ListComp, ast.DictComp, ast.SetComp, ast.GeneratorExp, ast.IfExp, ast.BoolOp)
            if isinstance(s, ast.Assign) and len(s.targets) == 1 and not has_call(s.value) \
                    and not any(isinstance(n_, lazy) or (isinstance(n_, ast.Compare) and len(n_.ops) > 1) for n_ in ast.walk(s.value)):
                # first pure access path of depth >= 2 read in the value (all its sub-expressions are call free,
                # the whole value is call free, so hoisting does not reorder any effect)
                cands = [n for n in ast.walk(s.value) if isinstance(n, (ast.Attribute, ast.Subscript)) and isinstance(n.ctx, ast.Load) and depth(n) >= 2
                         and not any(isinstance(x, ast.Slice) for x in ast.walk(n))]
                tgt_names = {n.id for n in ast.walk(s.targets[0]) if isinstance(n, ast.Name)}
                cands = [c for c in cands if not ({n.id for n in ast.walk(c) if isinstance(n, ast.Name)} & tgt_names and isinstance(s.targets[0], (ast.Subscript, ast.Attribute)))]
                if cands and s.value is not cands[0]:
                    c = cands[0]
                    k[0] += 1
                    nm = "_mm_t%d" % k[0]
                    key = ast.dump(c)

                    class R(ast.NodeTransformer):
                        def generic_visit(self, n):
                            if isinstance(n, (ast.Attribute, ast.Subscript)) and ast.dump(n) == key:
                                return ast.copy_location(ast.Name(id=nm, ctx=ast.Load()), n)
                            return super().generic_visit(n)
                    newv = R().visit(copy.deepcopy(s.value))
                    out.append(ast.copy_location(ast.Assign(targets=[ast.Name(id=nm, ctx=ast.Store())], value=copy.deepcopy(c)), s))
                    s.value = newv
            out.append(s)
        return out
    for fn in functions(tree):
        fn.body = rewrite_block(fn.body)
    return tree


# ------------------------------------------------------------------ flatten / unflatten
def _terminates(stmts):
    return bool(stmts) and isinstance(stmts[-1], (ast.Return, ast.Raise, ast.Continue, ast.Break))


def t_flatten(tree):
    def block(stmts):
        out = []
        for s in stmts:
            for f in ("body", "orelse", "finalbody"):
                b = getattr(s, f, None)
                if isinstance(b, list) and b and isinstance(b[0], ast.stmt):
                    setattr(s, f, block(b))
            if isinstance(s, ast.Try):
                for h in s.handlers:
                    h.body = block(h.body)
            if isinstance(s, ast.If) and s.orelse and _terminates(s.body):
                rest = s.orelse
                s.orelse = []
                out.append(s)
                out.extend(rest)
            else:
                out.append(s)
        return out
    for fn in functions(tree):
        fn.body = block(fn.body)
    return tree


def t_unflatten(tree):
    def block(stmts):
        out = []
        i = 0
        while i < len(stmts):
            s = stmts[i]
            for f in ("body", "orelse", "finalbody"):
                b = getattr(s, f, None)
                if isinstance(b, list) and b and isinstance(b[0], ast.stmt):
                    setattr(s, f, block(b))
            if isinstance(s, ast.Try):
                for h in s.handlers:
                    h.body = block(h.body)
            if isinstance(s, ast.If) and not s.orelse and _terminates(s.body) and i + 1 < len(stmts):
                s.orelse = block(stmts[i + 1:])
                out.append(s)
                return out
            out.append(s)
            i += 1
        return out
    for fn in functions(tree):
        fn.body = block(fn.body)
    return tree


# ------------------------------------------------------------------ ifexp
def t_ifexp(tree):
    """if C: x = A  else: x = B   ->   x = A if C else B     (same single simple target in both branches)"""
    class T(ast.NodeTransformer):
        def visit_If(self, n):
            self.generic_visit(n)
            if len(n.body) == 1 and len(n.orelse) == 1 and isinstance(n.body[0], ast.Assign) and isinstance(n.orelse[0], ast.Assign) \
                    and len(n.body[0].targets) == 1 and isinstance(n.body[0].targets[0], ast.Name) \
                    and ast.dump(n.body[0].targets[0]) == ast.dump(n.orelse[0].targets[0]):
                return ast.copy_location(ast.Assign(targets=n.body[0].targets, value=ast.IfExp(test=n.test, body=n.body[0].value, orelse=n.orelse[0].value)), n)
            if len(n.body) == 1 and len(n.orelse) == 1 and isinstance(n.body[0], ast.Return) and isinstance(n.orelse[0], ast.Return) \
                    and n.body[0].value is not None and n.orelse[0].value is not None:
                return ast.copy_location(ast.Return(value=ast.IfExp(test=n.test, body=n.body[0].value, orelse=n.orelse[0].value)), n)
            return n
    return T().visit(tree)


# ------------------------------------------------------------------ comp
def t_comp(tree):
    """acc = []; for v in X: acc.append(E)   ->   acc = [E for v in X]     (nothing else in the loop, acc not read in E / X,
    loop variables not read after the loop)"""
    def block(stmts, fn_names_after):
        out = []
        i = 0
        while i < len(stmts):
            s = stmts[i]
            for f in ("body", "orelse", "finalbody"):
                b = getattr(s, f, None)
                if isinstance(b, list) and b and isinstance(b[0], ast.stmt):
                    setattr(s, f, block(b, fn_names_after))
            if isinstance(s, ast.Try):
                for h in s.handlers:
                    h.body = block(h.body, fn_names_after)
            nxt = stmts[i + 1] if i + 1 < len(stmts) else None
            if isinstance(s, ast.Assign) and len(s.targets) == 1 and isinstance(s.targets[0], ast.Name) and isinstance(s.value, ast.List) and not s.value.elts \
                    and isinstance(nxt, ast.For) and not nxt.orelse and len(nxt.body) == 1 and isinstance(nxt.body[0], ast.Expr) \
                    and isinstance(nxt.body[0].value, ast.Call) and isinstance(nxt.body[0].value.func, ast.Attribute) \
                    and nxt.body[0].value.func.attr == "append" and isinstance(nxt.body[0].value.func.value, ast.Name) \
                    and nxt.body[0].value.func.value.id == s.targets[0].id and len(nxt.body[0].value.args) == 1:
                acc = s.targets[0].id
                e = nxt.body[0].value.args[0]
                names = {n.id for n in ast.walk(e) if isinstance(n, ast.Name)} | {n.id for n in ast.walk(nxt.iter) if isinstance(n, ast.Name)}
                tvars = {n.id for n in ast.walk(nxt.target) if isinstance(n, ast.Name)}
                later = {n.id for t in stmts[i + 2:] for n in ast.walk(t) if isinstance(n, ast.Name)}
                if acc not in names and not (tvars & (later | fn_names_after)) and not has_call_yield(e):
                    comp = ast.ListComp(elt=e, generators=[ast.comprehension(target=nxt.target, iter=nxt.iter, ifs=[], is_async=0)])
                    out.append(ast.copy_location(ast.Assign(targets=s.targets, value=comp), s))
                    i += 2
                    continue
            out.append(s)
            i += 1
        return out

    def has_call_yield(e):
        return any(isinstance(n, (ast.Yield, ast.YieldFrom, ast.Await, ast.NamedExpr)) for n in ast.walk(e))
    for fn in functions(tree):
        # only at the top level of function bodies (so that "later" is the real continuation)
        fn.body = block(fn.body, set())
    return tree


# ------------------------------------------------------------------ guard
def t_guard(tree):
    """for ..: PRE; if C: BODY   (the if is the last statement of the loop body, no else)  ->  for ..: PRE; if not C: continue; BODY"""
    class T(ast.NodeTransformer):
        def visit_For(self, n):
            self.generic_visit(n)
            if n.body and isinstance(n.body[-1], ast.If) and not n.body[-1].orelse and len(n.body[-1].body) >= 2:
                last = n.body[-1]
                guard = ast.copy_location(ast.If(test=ast.UnaryOp(op=ast.Not(), operand=last.test), body=[ast.Continue()], orelse=[]), last)
                n.body = n.body[:-1] + [guard] + last.body
            return n
    return T().visit(tree)


# ------------------------------------------------------------------ tuple
def t_tuple(tree):
    """a = E1; b = E2  ->  a, b = E1, E2    (two consecutive assignments to distinct plain names, E2 does not read a, both call free)"""
    def block(stmts):
        out = []
        i = 0
        while i < len(stmts):
            s = stmts[i]
            for f in ("body", "orelse", "finalbody"):
                b = getattr(s, f, None)
                if isinstance(b, list) and b and isinstance(b[0], ast.stmt):
                    setattr(s, f, block(b))
            if isinstance(s, ast.Try):
                for h in s.handlers:
                    h.body = block(h.body)
            nxt = stmts[i + 1] if i + 1 < len(stmts) else None

            def simple(x):
                return isinstance(x, ast.Assign) and len(x.targets) == 1 and isinstance(x.targets[0], ast.Name) and not has_call(x.value) \
                    and not isinstance(x.value, (ast.List, ast.Dict, ast.ListComp, ast.Tuple))
            if simple(s) and simple(nxt) and s.targets[0].id != nxt.targets[0].id \
                    and s.targets[0].id not in {n.id for n in ast.walk(nxt.value) if isinstance(n, ast.Name)}:
                tgt = ast.Tuple(elts=[s.targets[0], nxt.targets[0]], ctx=ast.Store())
                val = ast.Tuple(elts=[s.value, nxt.value], ctx=ast.Load())
                out.append(ast.copy_location(ast.Assign(targets=[tgt], value=val), s))
                i += 2
                continue
            out.append(s)
            i += 1
        return out
    for fn in functions(tree):
        fn.body = block(fn.body)
    return tree


# ------------------------------------------------------------------ while
def t_while(tree):
    """for i in range(a, b): BODY  ->  i = a; while i < b: BODY; i += 1     (top level of a function body; BODY has no
    continue and does not assign i; a, b free of calls other than len(); b reads nothing BODY stores; i not read afterwards)"""
    def block(stmts):
        out = []
        for k, s in enumerate(stmts):
            ok = isinstance(s, ast.For) and not s.orelse and isinstance(s.target, ast.Name) and isinstance(s.iter, ast.Call) \
                and isinstance(s.iter.func, ast.Name) and s.iter.func.id == "range" and 1 <= len(s.iter.args) <= 2 and not s.iter.keywords
            if ok:
                i = s.target.id
                a = s.iter.args[0] if len(s.iter.args) == 2 else ast.Constant(value=0)
                b = s.iter.args[-1]
                for e in (a, b):
                    for n in ast.walk(e):
                        if isinstance(n, ast.Call) and not (isinstance(n.func, ast.Name) and n.func.id == "len"):
                            ok = False
                body = ast.Module(body=s.body, type_ignores=[])
                stored = set()
                for n in ast.walk(body):
                    if isinstance(n, (ast.Continue, ast.FunctionDef, ast.Lambda)):
                        ok = False
                    if isinstance(n, ast.Name) and isinstance(n.ctx, (ast.Store, ast.Del)):
                        stored.add(n.id)
                    if isinstance(n, ast.Call) and isinstance(n.func, ast.Attribute):
                        r = n.func.value
                        while isinstance(r, (ast.Attribute, ast.Subscript)):
                            r = r.value
                        if isinstance(r, ast.Name):
                            stored.add(r.id)
                    if isinstance(n, (ast.Attribute, ast.Subscript)) and isinstance(n.ctx, (ast.Store, ast.Del)):
                        r = n
                        while isinstance(r, (ast.Attribute, ast.Subscript)):
                            r = r.value
                        if isinstance(r, ast.Name):
                            stored.add(r.id)
                if i in stored or ({n.id for n in ast.walk(b) if isinstance(n, ast.Name)} & stored):
                    ok = False
                if any(isinstance(n, ast.Name) and n.id == i for t in stmts[k + 1:] for n in ast.walk(t)):
                    ok = False
            if ok:
                out.append(ast.copy_location(ast.Assign(targets=[ast.Name(id=i, ctx=ast.Store())], value=a), s))
                w = ast.While(test=ast.Compare(left=ast.Name(id=i, ctx=ast.Load()), ops=[ast.Lt()], comparators=[b]),
                              body=s.body + [ast.AugAssign(target=ast.Name(id=i, ctx=ast.Store()), op=ast.Add(), value=ast.Constant(value=1))], orelse=[])
                out.append(ast.copy_location(w, s))
            else:
                out.append(s)
        return out
    for fn in functions(tree):
        fn.body = block(fn.body)
    return tree


# ------------------------------------------------------------------ inline1
def t_inline1(tree):
    """t = E; S(t)  ->  S(E)   for a call-free E, when t occurs exactly once in the next statement and nowhere else"""
    def block(stmts, counts):
        out = []
        i = 0
        while i < len(stmts):
            s = stmts[i]
            for f in ("body", "orelse", "finalbody"):
                b = getattr(s, f, None)
                if isinstance(b, list) and b and isinstance(b[0], ast.stmt):
                    setattr(s, f, block(b, counts))
            if isinstance(s, ast.Try):
                for h in s.handlers:
                    h.body = block(h.body, counts)
            nxt = stmts[i + 1] if i + 1 < len(stmts) else None
            if isinstance(s, ast.Assign) and len(s.targets) == 1 and isinstance(s.targets[0], ast.Name) and not has_call(s.value) \
                    and not isinstance(s.value, (ast.List, ast.Dict, ast.Set, ast.ListComp, ast.DictComp, ast.SetComp, ast.GeneratorExp, ast.Lambda)) \
                    and nxt is not None and isinstance(nxt, (ast.Assign, ast.AugAssign, ast.Expr, ast.Return)) and counts.get(s.targets[0].id, 0) == 2:
                t = s.targets[0].id
                uses = [n for n in ast.walk(nxt) if isinstance(n, ast.Name) and n.id == t and isinstance(n.ctx, ast.Load)]
                lazy = any(isinstance(n, (ast.Lambda, ast.ListComp, ast.DictComp, ast.SetComp, ast.GeneratorExp, ast.IfExp, ast.BoolOp)) for n in ast.walk(nxt))
                stores_read = {n.id for n in ast.walk(s.value) if isinstance(n, ast.Name)}
                tgt_names = {n.id for n in ast.walk(nxt) if isinstance(n, ast.Name) and isinstance(n.ctx, ast.Store)}
                if len(uses) == 1 and not lazy and not has_call(nxt) and not (stores_read & tgt_names and isinstance(nxt, ast.AugAssign)):
                    val = s.value

                    class R(ast.NodeTransformer):
                        def visit_Name(self, n):
                            if n.id == t and isinstance(n.ctx, ast.Load):
                                return ast.copy_location(copy.deepcopy(val), n)
                            return n
                    out.append(R().visit(nxt))
                    i += 2
                    continue
            out.append(s)
            i += 1
        return out
    for fn in functions(tree):
        counts = {}
        for n in ast.walk(fn):
            if isinstance(n, ast.Name):
                counts[n.id] = counts.get(n.id, 0) + 1
        fn.body = block(fn.body, counts)
    return tree


# ------------------------------------------------------------------ extract
def t_extract(tree):
    """the body of a top-level `for` loop of a method/function is moved into a new helper (called once per iteration)
    when it has no return/break/continue/yield, and every local it assigns is private to the body"""
    k = [0]

    def free_vars(body, target_names):
        stored, read = set(), []
        for s in body:
            for n in ast.walk(s):
                if isinstance(n, ast.Name):
                    if isinstance(n.ctx, (ast.Store, ast.Del)):
                        stored.add(n.id)
                    else:
                        read.append(n.id)
        return stored, read

    def process(fn, owner_body, is_method):
        import builtins
        new_defs = []
        params = {a.arg for a in ast.walk(fn.args) if isinstance(a, ast.arg)}
        all_names = [n for n in ast.walk(fn) if isinstance(n, ast.Name)]
        for idx, s in enumerate(fn.body):
            if not (isinstance(s, ast.For) and not s.orelse and len(s.body) >= 2):
                continue
            body_nodes = list(ast.walk(ast.Module(body=s.body, type_ignores=[])))
            if any(isinstance(n, (ast.Return, ast.Break, ast.Continue, ast.Yield, ast.YieldFrom, ast.Await, ast.FunctionDef, ast.Lambda, ast.Global, ast.Nonlocal,
                                  ast.ListComp, ast.SetComp, ast.DictComp, ast.GeneratorExp)) for n in body_nodes):
                continue
            if any(isinstance(n, ast.Call) and isinstance(n.func, ast.Name) and n.func.id == "super" for n in body_nodes):
                continue
            stored, read = free_vars(s.body, None)
            inside = {id(n) for n in body_nodes}
            outside_names = {n.id for n in all_names if id(n) not in inside}
            tvars = {n.id for n in ast.walk(s.target) if isinstance(n, ast.Name)}
            if stored & (outside_names | tvars | params):
                continue
            # locals must be assigned before they are read inside the body (no value carried between iterations)
            seen = set()
            ok = True
            for st in s.body:
                for n in ast.walk(st):
                    if isinstance(n, ast.Name) and isinstance(n.ctx, ast.Load) and n.id in stored and n.id not in seen:
                        # approximate: any read in a statement before the first store statement
                        ok = ok and any(isinstance(m, ast.Name) and m.id == n.id and isinstance(m.ctx, ast.Store) for m in ast.walk(st)) and isinstance(st, ast.Assign) \
                            and not any(isinstance(m, ast.Name) and m.id == n.id and isinstance(m.ctx, ast.Load) for m in ast.walk(st.value))
                for n in ast.walk(st):
                    if isinstance(n, ast.Name) and isinstance(n.ctx, ast.Store):
                        seen.add(n.id)
            if not ok:
                continue
            free = []
            for r in read:
                if r not in stored and r not in free and not hasattr(builtins, r) and (r in params or r in outside_names or r in tvars) and r in (params | tvars | {n.id for n in all_names if isinstance(n.ctx, ast.Store)}):
                    free.append(r)
            if is_method:
                me = fn.args.args[0].arg if fn.args.args else None
                if me is None or any(isinstance(d, ast.Name) and d.id in ("staticmethod", "classmethod") for d in fn.decorator_list):
                    continue
                free = [f for f in free if f != me]
            k[0] += 1
            hname = "_mm_body_%d" % k[0]
            hargs = ([ast.arg(arg=me)] if is_method else []) + [ast.arg(arg=f) for f in free]
            helper = ast.FunctionDef(name=hname, args=ast.arguments(posonlyargs=[], args=hargs, vararg=None, kwonlyargs=[], kw_defaults=[], kwarg=None, defaults=[]),
                                     body=s.body, decorator_list=[], returns=None, type_comment=None)
            callee = ast.Attribute(value=ast.Name(id=me, ctx=ast.Load()), attr=hname, ctx=ast.Load()) if is_method else ast.Name(id=hname, ctx=ast.Load())
            s.body = [ast.Expr(value=ast.Call(func=callee, args=[ast.Name(id=f, ctx=ast.Load()) for f in free], keywords=[]))]
            new_defs.append(helper)
        return new_defs
    new_mod = []
    for st in tree.body:
        if isinstance(st, ast.FunctionDef):
            new_mod.extend(process(st, tree.body, False))
        elif isinstance(st, ast.ClassDef):
            extra = []
            for m in st.body:
                if isinstance(m, ast.FunctionDef):
                    extra.extend(process(m, st.body, True))
            st.body.extend(extra)
    tree.body.extend(new_mod)
    return tree


# ------------------------------------------------------------------ annot / counter / aug / rettemp / cache
def t_annot(tree):
    """x = E  ->  x: object = E   for plain local names (annotations of locals are never evaluated)"""
    for fn in functions(tree):
        declared = {nm for n in ast.walk(fn) if isinstance(n, (ast.Global, ast.Nonlocal)) for nm in n.names}

        class T(ast.NodeTransformer):
            def visit_FunctionDef(self, n):
                return n if n is not fn else self.generic_visit(n)

            def visit_Lambda(self, n):
                return n

            def visit_Assign(self, n):
                if len(n.targets) == 1 and isinstance(n.targets[0], ast.Name) and n.targets[0].id not in declared:
                    return ast.copy_location(ast.AnnAssign(target=n.targets[0], annotation=ast.Name(id="object", ctx=ast.Load()), value=n.value, simple=1), n)
                return n
        T().visit(fn)
    return tree


def t_counter(tree):
    """for i, v in enumerate(X): BODY  ->  i = 0; for v in X: BODY; i += 1     (no continue in BODY, i not stored in BODY,
    i not read after the loop; a start value is kept)"""
    def rewrite_block(stmts, fn_names_after):
        out = []
        for k_, s in enumerate(stmts):
            for f in ("body", "orelse", "finalbody"):
                b = getattr(s, f, None)
                if isinstance(b, list) and b and isinstance(b[0], ast.stmt):
                    setattr(s, f, rewrite_block(b, None))
            if isinstance(s, ast.Try):
                for h in s.handlers:
                    h.body = rewrite_block(h.body, None)
            if isinstance(s, ast.For) and isinstance(s.iter, ast.Call) and isinstance(s.iter.func, ast.Name) and s.iter.func.id == "enumerate" \
                    and len(s.iter.args) in (1, 2) and not s.iter.keywords and isinstance(s.target, ast.Tuple) and len(s.target.elts) == 2 \
                    and isinstance(s.target.elts[0], ast.Name) and not s.orelse:
                i = s.target.elts[0].id
                inner = ast.Module(body=s.body, type_ignores=[])
                bad = any(isinstance(n, (ast.Continue, ast.FunctionDef, ast.Lambda)) or (isinstance(n, ast.Name) and n.id == i and not isinstance(n.ctx, ast.Load))
                          for n in ast.walk(inner))
                later = any(isinstance(n, ast.Name) and n.id == i for r in stmts[k_ + 1:] for n in ast.walk(r))
                start = s.iter.args[1] if len(s.iter.args) == 2 else ast.Constant(value=0)
                if not bad and not later and isinstance(start, ast.Constant) and fn_names_after is not None:
                    out.append(ast.copy_location(ast.Assign(targets=[ast.Name(id=i, ctx=ast.Store())], value=start), s))
                    s.target = s.target.elts[1]
                    s.iter = s.iter.args[0]
                    s.body = s.body + [ast.copy_location(ast.AugAssign(target=ast.Name(id=i, ctx=ast.Store()), op=ast.Add(), value=ast.Constant(value=1)), s)]
            out.append(s)
        return out
    for fn in functions(tree):
        fn.body = rewrite_block(fn.body, True)     # only loops at the top level of a function body (the index is then provably dead afterwards)
    return tree


def t_aug(tree):
    """x += c  ->  x = x + c   and   x -= c -> x = x - c   for a plain name x and a numeric literal c"""
    class T(ast.NodeTransformer):
        def visit_AugAssign(self, n):
            if isinstance(n.target, ast.Name) and isinstance(n.op, (ast.Add, ast.Sub)) and isinstance(n.value, ast.Constant) \
                    and isinstance(n.value.value, (int, float)) and not isinstance(n.value.value, bool):
                return ast.copy_location(ast.Assign(targets=[ast.Name(id=n.target.id, ctx=ast.Store())],
                                                    value=ast.BinOp(left=ast.Name(id=n.target.id, ctx=ast.Load()), op=n.op, right=n.value)), n)
            return n
    return T().visit(tree)


def t_rettemp(tree):
    """return E  ->  _mm_r = E; return _mm_r     (E not a plain name / constant)"""
    def rewrite_block(stmts):
        out = []
        for s in stmts:
            for f in ("body", "orelse", "finalbody"):
                b = getattr(s, f, None)
                if isinstance(b, list) and b and isinstance(b[0], ast.stmt) and not isinstance(s, (ast.FunctionDef, ast.ClassDef)):
                    setattr(s, f, rewrite_block(b))
            if isinstance(s, ast.Try):
                for h in s.handlers:
                    h.body = rewrite_block(h.body)
            if isinstance(s, ast.Return) and s.value is not None and not isinstance(s.value, (ast.Name, ast.Constant)):
                out.append(ast.copy_location(ast.Assign(targets=[ast.Name(id="_mm_r", ctx=ast.Store())], value=s.value), s))
                s = ast.copy_location(ast.Return(value=ast.Name(id="_mm_r", ctx=ast.Load())), s)
            out.append(s)
        return out
    for fn in functions(tree):
        fn.body = rewrite_block(fn.body)
    return tree


def t_cache(tree):
    """self.a read at least twice in a method and never stored in the module outside __init__ -> c = self.a at the top of the
    method and c at the reads (the methods of this package rebind such configuration attributes only in __init__)"""
    stored_elsewhere = set()
    for fn in functions(tree):
        if fn.name in ("__init__",):
            continue
        for n in ast.walk(fn):
            if isinstance(n, ast.Attribute) and not isinstance(n.ctx, ast.Load):
                stored_elsewhere.add(n.attr)
    k = [0]
    for cls in [c for c in ast.walk(tree) if isinstance(c, ast.ClassDef)]:
        for fn in [m for m in cls.body if isinstance(m, ast.FunctionDef)]:
            if not fn.args.args or fn.name == "__init__" or any(isinstance(d, ast.Name) and d.id in ("staticmethod", "classmethod", "property") for d in fn.decorator_list):
                continue
            selfn = fn.args.args[0].arg
            counts = {}
            for n in own_nodes(fn):
                if isinstance(n, ast.Attribute) and isinstance(n.ctx, ast.Load) and isinstance(n.value, ast.Name) and n.value.id == selfn:
                    counts[n.attr] = counts.get(n.attr, 0) + 1
            # not the callee of a method call (self.m(...)), not stored anywhere but __init__
            callee = {n.func.attr for n in ast.walk(fn) if isinstance(n, ast.Call) and isinstance(n.func, ast.Attribute)
                      and isinstance(n.func.value, ast.Name) and n.func.value.id == selfn}
            nested = any(isinstance(n, (ast.FunctionDef, ast.Lambda)) for n in ast.walk(ast.Module(body=fn.body, type_ignores=[])))
            if any(isinstance(n, ast.Name) and n.id == selfn and not isinstance(n.ctx, ast.Load) for n in ast.walk(fn)) or nested:
                continue
            doc0 = 1 if (fn.body and isinstance(fn.body[0], ast.Expr) and isinstance(fn.body[0].value, ast.Constant)) else 0
            first = fn.body[doc0] if len(fn.body) > doc0 else None

            def read_first(attr_):
                """the method's first statement reads self.attr unconditionally: hoisting the read changes nothing"""
                if not isinstance(first, (ast.Assign, ast.Expr, ast.Return, ast.AugAssign)):
                    return False
                lazy = (ast.IfExp, ast.BoolOp, ast.Lambda, ast.ListComp, ast.SetComp, ast.DictComp, ast.GeneratorExp)

                def rec(n):
                    if isinstance(n, lazy) or (isinstance(n, ast.Compare) and len(n.ops) > 1):
                        return False
                    if isinstance(n, ast.Attribute) and isinstance(n.ctx, ast.Load) and isinstance(n.value, ast.Name) and n.value.id == selfn and n.attr == attr_:
                        return True
                    return any(rec(c_) for c_ in ast.iter_child_nodes(n))
                # nothing with an effect may be evaluated before it: keep it simple, the statement's value must start with the read
                v = getattr(first, "value", None)
                if v is None:
                    return False
                calls_before = False
                for n in ast.walk(v):
                    if isinstance(n, ast.Call):
                        calls_before = True
                return rec(v) and (not calls_before or (isinstance(v, ast.Call) and isinstance(v.func, ast.Attribute) and rec(v.func.value)
                                                         and not any(isinstance(x, ast.Call) for a_ in list(v.args) + [k_.value for k_ in v.keywords] for x in ast.walk(a_))))
            if fn.name.startswith("__"):
                continue
            for attr, c in sorted(counts.items()):
                if c < 2 or attr in stored_elsewhere or attr in callee or not read_first(attr):
                    continue
                k[0] += 1
                nm = "_mm_c%d" % k[0]

                class T(ast.NodeTransformer):
                    def visit_Attribute(self, n):
                        self.generic_visit(n)
                        if isinstance(n.ctx, ast.Load) and isinstance(n.value, ast.Name) and n.value.id == selfn and n.attr == attr:
                            return ast.copy_location(ast.Name(id=nm, ctx=ast.Load()), n)
                        return n

                    def visit_ListComp(self, n):
                        return n
                    visit_SetComp = visit_DictComp = visit_GeneratorExp = visit_Lambda = visit_ListComp
                doc = 1 if (fn.body and isinstance(fn.body[0], ast.Expr) and isinstance(fn.body[0].value, ast.Constant)) else 0
                body = [T().visit(b) for b in fn.body[doc:]]
                bind = ast.Assign(targets=[ast.Name(id=nm, ctx=ast.Store())],
                                  value=ast.Attribute(value=ast.Name(id=selfn, ctx=ast.Load()), attr=attr, ctx=ast.Load()))
                ast.copy_location(bind, fn.body[doc] if len(fn.body) > doc else fn)
                fn.body = fn.body[:doc] + [bind] + body
                break       # one cached attribute per method
    return tree


def t_log(tree):
    """an observability commit: a module logger, a debug line on entry of every function and one per loop iteration
    (arguments only read names), a perf_counter reading around every function body that is logged and dropped"""
    has_future = 1 if (tree.body and isinstance(tree.body[0], ast.Expr) and isinstance(tree.body[0].value, ast.Constant)) else 0
    k = [0]
    for fn in functions(tree):
        doc = 1 if (fn.body and isinstance(fn.body[0], ast.Expr) and isinstance(fn.body[0].value, ast.Constant)) else 0
        params = [a.arg for a in fn.args.args]
        entry = ast.parse("_mm_log.debug('enter %s %s', %r, %s)" % ("%s", "%s", fn.name, ("len(%s)" % params[-1]) if False else repr(len(params)))).body[0]

        class T(ast.NodeTransformer):
            def visit_FunctionDef(self, n):
                return n if n is not fn else self.generic_visit(n)

            def visit_Lambda(self, n):
                return n

            def visit_For(self, n):
                self.generic_visit(n)
                k[0] += 1
                n.body = [ast.parse("_mm_log.debug('iteration of loop %d')" % k[0]).body[0]] + n.body
                return n
        T().visit(fn)
        fn.body = fn.body[:doc] + [entry] + fn.body[doc:]
    pre = ast.parse("import logging\n_mm_log = logging.getLogger(__name__)").body
    # after the module docstring and __future__ imports
    i = has_future
    while i < len(tree.body) and isinstance(tree.body[i], ast.ImportFrom) and tree.body[i].module == "__future__":
        i += 1
    tree.body = tree.body[:i] + pre + tree.body[i:]
    return tree


_SIG_CACHE = {}


def _all_sigs():
    """parameter lists of the package's functions / methods / constructors by name: {name: [list of parameter lists]}"""
    if _SIG_CACHE:
        return _SIG_CACHE
    d = os.path.join(REPO, "artap")
    for fn in os.listdir(d):
        if not fn.endswith(".py"):
            continue
        try:
            tree = ast.parse(open(os.path.join(d, fn), encoding="utf-8").read())
        except SyntaxError:
            continue
        for st in tree.body:
            if isinstance(st, ast.FunctionDef):
                _SIG_CACHE.setdefault(st.name, []).append((st.args, False))
            elif isinstance(st, ast.ClassDef):
                for m in st.body:
                    if isinstance(m, ast.FunctionDef):
                        static = any(isinstance(x, ast.Name) and x.id == "staticmethod" for x in m.decorator_list)
                        _SIG_CACHE.setdefault(st.name if m.name == "__init__" else m.name, []).append((m.args, not static))
    return _SIG_CACHE


def t_kwargs(tree):
    """f(a, b, c) -> f(a, b=b, c=c) at the call sites of the package's own functions, when every definition of that
    name has the same parameter list (so the keyword names are right whichever definition is reached)"""
    sigs = _all_sigs()

    class T(ast.NodeTransformer):
        def visit_Call(self, n):
            self.generic_visit(n)
            nm = n.func.attr if isinstance(n.func, ast.Attribute) else (n.func.id if isinstance(n.func, ast.Name) else None)
            defs = sigs.get(nm)
            if not defs or nm.startswith("__") or any(isinstance(a, ast.Starred) for a in n.args) or len(n.args) < 2:
                return n
            lists = set()
            for a, drop in defs:
                if a.vararg or a.kwarg or a.posonlyargs:
                    return n
                lists.add(tuple([x.arg for x in a.args][1 if drop else 0:]))
            if len(lists) != 1:
                return n
            ps = list(lists)[0]
            if len(n.args) > len(ps) or any(k.arg in ps[:len(n.args)] for k in n.keywords if k.arg):
                return n
            keep = 1
            new_kw = [ast.keyword(arg=ps[i], value=n.args[i]) for i in range(keep, len(n.args))]
            n.keywords = new_kw + n.keywords
            n.args = n.args[:keep]
            return n
    return T().visit(tree)


TRANSFORMS = {"inline1": t_inline1, "extract": t_extract, "ifexp": t_ifexp, "comp": t_comp, "guard": t_guard, "tuple": t_tuple, "while": t_while, "rename": t_rename, "negate": t_negate, "flip": t_flip, "demorgan": t_demorgan, "enum": t_enum, "temp": t_temp,
              "flatten": t_flatten, "unflatten": t_unflatten, "annot": t_annot, "counter": t_counter, "aug": t_aug, "rettemp": t_rettemp, "cache": t_cache, "log": t_log, "kwargs": t_kwargs}
COMBOS = [("extract", "rename", "flip"), ("inline1", "negate", "while"), ("comp", "rename", "guard"), ("while", "tuple", "ifexp"), ("rename", "temp"), ("negate", "flip"), ("enum", "rename", "flatten"), ("temp", "negate", "unflatten"),
          ("cache", "counter", "aug"), ("annot", "rettemp", "rename"), ("cache", "extract", "annot"), ("log", "rename", "counter")]


def make_variant(names, dest):
    os.makedirs(os.path.join(dest, "artap"))
    src_dir = os.path.join(REPO, "artap")
    for fn in sorted(os.listdir(src_dir)):
        p = os.path.join(src_dir, fn)
        if os.path.isdir(p):
            if fn == "tests":
                shutil.copytree(p, os.path.join(dest, "artap", fn))
            continue
        if not fn.endswith(".py"):
            shutil.copy(p, os.path.join(dest, "artap", fn))
            continue
        if fn == "__init__.py":
            shutil.copy(p, os.path.join(dest, "artap", fn))
            continue
        src = open(p, encoding="utf-8").read()
        tree = ast.parse(src)
        for nm in names:
            tree = TRANSFORMS[nm](tree)
        ast.fix_missing_locations(tree)
        out = ast.unparse(tree)
        compile(out, fn, "exec")
        open(os.path.join(dest, "artap", fn), "w", encoding="utf-8").write(out + "\n")


def run_variant(args):
    names, checks, keep, do_pytest = args
    label = "+".join(names)
    tmp = tempfile.mkdtemp(prefix="verif-mm-")
    try:
        make_variant(names, tmp)
        env = dict(os.environ, VERIF_REPO=tmp, VERIF_OUT=os.path.join(tmp, "out"))
        res = {}
        for c in checks:
            r = subprocess.run([os.path.join(VERIF, "check"), c], env=env, capture_output=True, text=True)
            res[c] = (r.returncode, [l for l in r.stdout.splitlines() if l.startswith(("finding:", "INCONCLUSIVE", "ANALYSIS-ERROR"))][:3])
        py = None
        if do_pytest:
            for extra in ("setup.py", "setup.cfg", "pytest.ini", "tox.ini", "conftest.py"):
                if os.path.exists(os.path.join(REPO, extra)):
                    shutil.copy(os.path.join(REPO, extra), tmp)
            tests = ["artap/tests/" + t for t in ("test_operators.py", "test_archive.py", "test_benchmarks.py", "test_benchmark_pareto.py", "test_benchmark_robust.py",
                                                   "test_generators.py", "test_datastore.py", "test_job.py", "test_results.py", "test_swarm.py", "test_gradients.py",
                                                   "test_robust.py", "test_quality_indicator.py", "test_problem_nsga2.py", "test_problem_epsmoea.py", "test_problem_swarm.py",
                                                   "test_algorithm.py", "test_calculation_fails.py")]
            r = subprocess.run(["/venv/bin/python", "-m", "pytest", "-q", "-p", "no:cacheprovider", "--timeout=900", "--continue-on-collection-errors", "-q"] + tests,
                               cwd=tmp, capture_output=True, text=True)
            py = (r.returncode, (r.stdout.strip().splitlines() or [""])[-1])
        if keep:
            shutil.copytree(tmp, os.path.join(keep, label.replace("+", "_")), dirs_exist_ok=True)
        return label, res, py
    finally:
        shutil.rmtree(tmp, ignore_errors=True)


def main():
    only = None
    checks = None
    keep = None
    do_pytest = False
    a = sys.argv[1:]
    while a:
        x = a.pop(0)
        if x == "--only":
            only = a.pop(0).split(",")
        elif x == "--checks":
            checks = a.pop(0).split(",")
        elif x == "--keep":
            keep = a.pop(0)
        elif x == "--pytest":
            do_pytest = True
    if checks is None:
        checks = [c["property_id"] for c in json.load(open(os.path.join(VERIF, "MANIFEST.json")))["checks"]]
    variants = [(n,) for n in TRANSFORMS] + COMBOS
    if only:
        variants = [tuple(v.split("+")) for v in only]
    with ThreadPoolExecutor(8) as ex:
        out = list(ex.map(run_variant, [(v, checks, keep, do_pytest) for v in variants]))
    bad = 0
    for label, res, py in out:
        alarms = sorted(c for c, (rc, _) in res.items() if rc == 1)
        unknown = sorted(c for c, (rc, _) in res.items() if rc == 2)
        print("%-28s false alarms=%s  not followed=%s%s" % (label, alarms, unknown, ("  pytest=%s" % (py,)) if py else ""))
        for c in alarms + unknown:
            for l in res[c][1]:
                print("       %s %s" % (c, l[:230]))
        bad += len(alarms)
    return 1 if bad else 0


if __name__ == "__main__":
    sys.exit(main())
