#!/bin/sh
# usage: tools/quick_seed.sh <seed-out-dir> [check ids...]   - apply the patch to a scratch copy and run checks (no tests, no demo)
d=$1; shift
t=$(mktemp -d /tmp/verif-qs-XXXX); mkdir -p $t/artap; cp /repo/artap/*.py $t/artap/
(cd $t && patch -p1 -s < $d/patch.diff) || { echo "patch failed"; rm -rf $t; exit 2; }
for c in "$@"; do VERIF_REPO=$t VERIF_OUT=$t/out /verif/check $c | grep -v "^KNOWN" | tail -3; done
rm -rf $t
