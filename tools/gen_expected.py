#!/usr/bin/env python3
"""Write sa/expected_instances.json: per property and rule, the number of rule instances the check produces on the tree
the rules were written against (taken from the committed evidence of a clean quick run).  The coverage guard in
sa/report.py turns a run that produces fewer than half of them, without saying why, into INCONCLUSIVE."""
import glob
import json
import os

VERIF = os.path.dirname(os.path.dirname(os.path.abspath(__file__)))
out = {}
for f in sorted(glob.glob(os.path.join(VERIF, "evidence", "C*.json"))):
    d = json.load(open(f))
    cnt = {}
    for i in d["coverage"]["instances"]:
        cnt[i["rule"]] = cnt.get(i["rule"], 0) + 1
    out[d["property_id"]] = cnt
json.dump(out, open(os.path.join(VERIF, "sa", "expected_instances.json"), "w"), indent=1, sort_keys=True)
print({k: sum(v.values()) for k, v in out.items()})
