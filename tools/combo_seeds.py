#!/usr/bin/env python3
"""Refactoring x seed combinations: apply a behaviour-preserving refactoring (refactors/Rk) and then a seeded bug
(seeded/S) that touches at least one of the same files, when the second patch still applies; the seed's own check must
still alarm.  Reports combinations where the bug is no longer reported (exit 0 = missed, exit 2 = not followed)."""
import json
import os
import shutil
import subprocess
import sys
import tempfile
from concurrent.futures import ThreadPoolExecutor

VERIF = os.path.dirname(os.path.dirname(os.path.abspath(__file__)))


def files_of(patch):
    return {l.split(" b/")[-1].strip() for l in open(patch) if l.startswith("diff --git")}


def one(args):
    r, s = args
    rp = os.path.join(VERIF, "refactors", r, "patch.diff")
    sp = os.path.join(VERIF, "seeded", s, "patch.diff")
    tmp = tempfile.mkdtemp(prefix="verif-combo-")
    try:
        os.makedirs(os.path.join(tmp, "artap"))
        for fn in os.listdir("/repo/artap"):
            if fn.endswith(".py"):
                shutil.copy(os.path.join("/repo/artap", fn), os.path.join(tmp, "artap", fn))
        if subprocess.run(["patch", "-p1", "-s", "-i", rp], cwd=tmp, capture_output=True).returncode != 0:
            return r, s, "refactor-does-not-apply", ""
        p = subprocess.run(["patch", "-p1", "-s", "-F", "0", "-i", sp], cwd=tmp, capture_output=True, text=True)
        if p.returncode != 0:
            return r, s, "skip", ""
        for fn in os.listdir(os.path.join(tmp, "artap")):
            if fn.endswith(".py"):
                try:
                    compile(open(os.path.join(tmp, "artap", fn)).read(), fn, "exec")
                except SyntaxError:
                    return r, s, "skip", ""
        prop = s.split("-")[0]
        env = dict(os.environ, VERIF_REPO=tmp, VERIF_OUT=os.path.join(tmp, "out"))
        q = subprocess.run([os.path.join(VERIF, "check"), prop], env=env, capture_output=True, text=True)
        lines = [l for l in q.stdout.splitlines() if l.startswith(("finding:", "INCONCLUSIVE", "ANALYSIS-ERROR"))][:2]
        return r, s, {0: "MISSED", 1: "detected", 2: "not-followed"}.get(q.returncode, str(q.returncode)), " | ".join(x[:160] for x in lines)
    finally:
        shutil.rmtree(tmp, ignore_errors=True)


def main():
    rs = sorted(d for d in os.listdir(os.path.join(VERIF, "refactors")) if os.path.exists(os.path.join(VERIF, "refactors", d, "patch.diff")))
    ss = sorted(d for d in os.listdir(os.path.join(VERIF, "seeded")) if os.path.exists(os.path.join(VERIF, "seeded", d, "patch.diff")))
    if len(sys.argv) > 1:
        rs = [r for r in rs if r in sys.argv[1:]] or rs
    combos = []
    for r in rs:
        rf = files_of(os.path.join(VERIF, "refactors", r, "patch.diff"))
        for s in ss:
            if rf & files_of(os.path.join(VERIF, "seeded", s, "patch.diff")):
                combos.append((r, s))
    with ThreadPoolExecutor(12) as ex:
        out = list(ex.map(one, combos))
    tally = {}
    for r, s, st, info in out:
        tally[st] = tally.get(st, 0) + 1
        if st in ("MISSED", "not-followed"):
            print("%-4s + %-6s %s  %s" % (r, s, st, info))
    print(tally)


if __name__ == "__main__":
    main()
