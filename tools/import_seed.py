#!/usr/bin/env python3
"""Verify a seeded change produced by a sub-agent and, if confirmed, keep it
under /verif/seeded/<name>/.

usage: import_seed.py <src-out-dir> <name> [--skip-suite]

Confirms, in a fresh scratch worktree of /repo (removed afterwards):
  * patch.diff applies to HEAD,
  * demo.py prints PASS / exits 0 on the unchanged tree and FAIL / exits 1 on the changed tree,
  * every stable baseline test still passes with the change,
then runs every registered check against the changed tree (VERIF_REPO) and
records which ones report a violation.
"""
import json
import os
import shutil
import subprocess
import sys
import tempfile
import xml.etree.ElementTree as ET

VERIF = os.path.dirname(os.path.dirname(os.path.abspath(__file__)))


def sh(cmd, cwd=None, env=None, timeout=3600):
    p = subprocess.run(cmd, shell=True, cwd=cwd, env=env, capture_output=True, text=True, timeout=timeout)
    return p.returncode, (p.stdout + p.stderr)


def main():
    src, name = sys.argv[1], sys.argv[2]
    skip_suite = "--skip-suite" in sys.argv
    patch = os.path.join(src, "patch.diff")
    demo = os.path.join(src, "demo.py")
    meta = json.load(open(os.path.join(src, "meta.json")))
    tmp = tempfile.mkdtemp(prefix="verif-seed-")
    wt = os.path.join(tmp, "wt")
    report = {"verified_by": "tools/import_seed.py"}
    try:
        rc, out = sh("git -C /repo worktree add -q --detach %s HEAD" % wt)
        assert rc == 0, out
        head = sh("git -C /repo rev-parse --short HEAD")[1].strip()
        report["repo_head"] = head
        rc, out = sh("/venv/bin/python %s" % demo, cwd=wt, timeout=600)
        report["demo_unchanged"] = {"exit": rc, "tail": out.strip().splitlines()[-1:] if out.strip() else []}
        ok = rc == 0
        rc, out = sh("git apply %s" % patch, cwd=wt)
        report["patch_applies"] = rc == 0
        assert rc == 0, "patch does not apply: " + out
        rc, out = sh("/venv/bin/python -c 'import artap.operators, artap.individual, artap.problem, artap.algorithm_NSGAII, artap.algorithm_swarm'", cwd=wt)
        report["imports"] = rc == 0
        rc, out = sh("/venv/bin/python %s" % demo, cwd=wt, timeout=600)
        report["demo_changed"] = {"exit": rc, "tail": out.strip().splitlines()[-1:] if out.strip() else []}
        ok = ok and rc == 1
        if not skip_suite:
            junit = os.path.join(tmp, "junit.xml")
            rc, out = sh("/venv/bin/python -m pytest -q -p no:cacheprovider --timeout=900 --continue-on-collection-errors --junitxml=%s" % junit, cwd=wt, timeout=3000)
            if not os.path.exists(junit):
                print("pytest produced no junit file; output tail:\n" + out[-2000:])
            stable = set(json.load(open("/root/.vp/BASELINE.json"))["stable_pass"])
            res = {}
            for tc in ET.parse(junit).iter("testcase"):
                nm = tc.get("classname") + "::" + tc.get("name")
                res[nm] = not any(c.tag in ("failure", "error", "skipped") for c in tc)
            broken = sorted(s for s in stable if not res.get(s))
            # a randomised test can fail under load: re-run each failing stable test alone three times
            flaky = {}
            for tname in list(broken):
                mod_cls, fn_name = tname.split("::")
                parts = mod_cls.split(".")
                path = "/".join(parts[:-1]) + ".py::" + parts[-1] + "::" + fn_name
                passes = 0
                for _ in range(3):
                    rc2, _o = sh("/venv/bin/python -m pytest -q -p no:cacheprovider --timeout=900 %s" % path, cwd=wt, timeout=1800)
                    passes += rc2 == 0
                flaky[tname] = "%d/3 passes when re-run alone" % passes
                # an unseeded stochastic test (test_surrogate_function asserts optimum > 0.9 of a random run) fails now and then on
                # the unchanged tree as well: two passes out of three alone count as "flaky", and are recorded as such
                if passes >= 2:
                    broken.remove(tname)
            report["stable_tests_broken"] = broken
            report["stable_tests_flaky_rerun"] = flaky
            ok = ok and not broken
        # run the registered checks against the changed tree
        checks = [c["property_id"] for c in json.load(open(os.path.join(VERIF, "MANIFEST.json")))["checks"]]
        env = dict(os.environ, VERIF_REPO=wt, VERIF_OUT=os.path.join(tmp, "out"))
        caught = {}
        for c in checks:
            rc, out = sh("%s/check %s" % (VERIF, c), env=env)
            caught[c] = {"exit": rc, "findings": [l for l in out.splitlines() if l.startswith("finding:") or l.startswith("INCONCLUSIVE") or l.startswith("ANALYSIS-ERROR")][:4]}
        report["checks"] = caught
        report["confirmed"] = ok
    finally:
        sh("git -C /repo worktree remove --force %s" % wt)
        shutil.rmtree(tmp, ignore_errors=True)
        sh("git -C /repo worktree prune")
    print(json.dumps(report, indent=1))
    if report.get("confirmed"):
        dst = os.path.join(VERIF, "seeded", name)
        os.makedirs(dst, exist_ok=True)
        shutil.copy(patch, os.path.join(dst, "patch.diff"))
        shutil.copy(demo, os.path.join(dst, "demo.py"))
        meta["verification"] = report
        meta["detected_by"] = sorted(c for c, r in report["checks"].items() if r["exit"] == 1)
        json.dump(meta, open(os.path.join(dst, "meta.json"), "w"), indent=1)
        print("kept as", dst, "detected_by", meta["detected_by"])
        return 0
    print("NOT CONFIRMED")
    return 1


if __name__ == "__main__":
    sys.exit(main())
