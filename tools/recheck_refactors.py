#!/usr/bin/env python3
"""Run every registered check against every kept behaviour-preserving refactoring
(/verif/refactors/<name>/patch.diff applied to a scratch copy of /repo/artap; nothing in
/repo is touched).  A check that exits 1 on such a copy raised a false alarm; exit 2
means the rules could not follow the new spelling (not an alarm, but worth reducing)."""
import json
import os
import shutil
import subprocess
import sys
import tempfile
from concurrent.futures import ThreadPoolExecutor

VERIF = os.path.dirname(os.path.dirname(os.path.abspath(__file__)))
REPO = "/repo"


def one(name):
    d = os.path.join(VERIF, "refactors", name)
    tmp = tempfile.mkdtemp(prefix="verif-refac-")
    try:
        os.makedirs(os.path.join(tmp, "artap"))
        for fn in os.listdir(os.path.join(REPO, "artap")):
            if fn.endswith(".py"):
                shutil.copy(os.path.join(REPO, "artap", fn), os.path.join(tmp, "artap", fn))
        p = subprocess.run(["patch", "-p1", "-s", "-i", os.path.join(d, "patch.diff")], cwd=tmp, capture_output=True, text=True)
        if p.returncode != 0:
            return name, {"_patch": p.stdout + p.stderr}
        checks = [c["property_id"] for c in json.load(open(os.path.join(VERIF, "MANIFEST.json")))["checks"]]
        env = dict(os.environ, VERIF_REPO=tmp, VERIF_OUT=os.path.join(tmp, "out"))
        res = {}
        for c in checks:
            r = subprocess.run([os.path.join(VERIF, "check"), c], env=env, capture_output=True, text=True)
            res[c] = (r.returncode, [l for l in r.stdout.splitlines() if l.startswith(("finding:", "INCONCLUSIVE", "ANALYSIS-ERROR"))][:3])
        return name, res
    finally:
        shutil.rmtree(tmp, ignore_errors=True)


def main():
    names = sorted(n for n in os.listdir(os.path.join(VERIF, "refactors")) if os.path.exists(os.path.join(VERIF, "refactors", n, "patch.diff")))
    if len(sys.argv) > 1:
        names = [n for n in names if n in sys.argv[1:]]
    with ThreadPoolExecutor(4) as ex:
        out = list(ex.map(one, names))
    bad = 0
    for name, res in out:
        if "_patch" in res:
            print("%-6s PATCH DOES NOT APPLY: %s" % (name, res["_patch"][:200]))
            bad += 1
            continue
        alarms = sorted(c for c, (rc, _) in res.items() if rc == 1)
        unknown = sorted(c for c, (rc, _) in res.items() if rc == 2)
        print("%-6s false alarms=%s  not followed=%s" % (name, alarms, unknown))
        for c in alarms + unknown:
            for l in res[c][1]:
                print("       %s %s" % (c, l[:220]))
        bad += len(alarms)
        mp = os.path.join(VERIF, "refactors", name, "meta.json")
        meta = json.load(open(mp)) if os.path.exists(mp) else {}
        if isinstance(meta, list):
            meta = {"refactorings": meta}
        meta["false_alarms"] = alarms
        meta["not_followed"] = unknown
        json.dump(meta, open(mp, "w"), indent=1)
    return 1 if bad else 0


if __name__ == "__main__":
    sys.exit(main())
