#!/bin/bash
# usage: tools/all.sh [tree] [tier]  -- every check in parallel against a tree (default /repo); prints exit codes of the non-zero ones
cd /verif
T=${1:-/repo}; TIER=${2:-quick}
O=$(mktemp -d /tmp/verif-all-XXXX)
for c in C01 C02 C03 C04 C05 C06 C07 C08 C09 C10 C11 C12 C13 C14 C15 C16 C17 C18 C19 C20; do
  ( VERIF_REPO=$T VERIF_OUT=$O/out ./check $c --tier $TIER > $O/$c.log 2>&1; echo $? > $O/$c.rc ) &
done
wait
bad=0
for c in C01 C02 C03 C04 C05 C06 C07 C08 C09 C10 C11 C12 C13 C14 C15 C16 C17 C18 C19 C20; do
  rc=$(cat $O/$c.rc)
  if [ "$rc" != 0 ]; then bad=1; echo "== $c exit=$rc"; grep -E "^(finding|INCONCLUSIVE|ANALYSIS|Traceback|[A-Za-z]+Error)" $O/$c.log | cut -c1-${3:-260} | head -8; fi
done
[ $bad = 0 ] && echo "all 20 checks exit 0 on $T ($TIER)"
rm -rf $O
