#!/usr/bin/env python3
"""Re-run every registered check against every kept seeded change (scratch copy of
/repo/artap + patch, VERIF_REPO pointed at it; nothing in /repo is touched) and
refresh meta.json['detected_by'].  Prints the detection matrix."""
import json
import os
import shutil
import subprocess
import sys
import tempfile
from concurrent.futures import ThreadPoolExecutor

VERIF = os.path.dirname(os.path.dirname(os.path.abspath(__file__)))
REPO = "/repo"


def one(name):
    d = os.path.join(VERIF, "seeded", name)
    meta = json.load(open(os.path.join(d, "meta.json")))
    tmp = tempfile.mkdtemp(prefix="verif-reseed-")
    try:
        os.makedirs(os.path.join(tmp, "artap"))
        for fn in os.listdir(os.path.join(REPO, "artap")):
            if fn.endswith(".py"):
                shutil.copy(os.path.join(REPO, "artap", fn), os.path.join(tmp, "artap", fn))
        p = subprocess.run(["patch", "-p1", "-s", "-i", os.path.join(d, "patch.diff")], cwd=tmp, capture_output=True, text=True)
        if p.returncode != 0:
            return name, meta, {"_patch": p.stdout + p.stderr}
        checks = [c["property_id"] for c in json.load(open(os.path.join(VERIF, "MANIFEST.json")))["checks"]]
        env = dict(os.environ, VERIF_REPO=tmp, VERIF_OUT=os.path.join(tmp, "out"))
        res = {}
        for c in checks:
            r = subprocess.run([os.path.join(VERIF, "check"), c], env=env, capture_output=True, text=True)
            res[c] = (r.returncode, [l for l in r.stdout.splitlines() if l.startswith(("finding:", "INCONCLUSIVE", "ANALYSIS-ERROR"))][:2])
        return name, meta, res
    finally:
        shutil.rmtree(tmp, ignore_errors=True)


def main():
    names = sorted(os.listdir(os.path.join(VERIF, "seeded")))
    names = [n for n in names if os.path.exists(os.path.join(VERIF, "seeded", n, "meta.json"))]
    with ThreadPoolExecutor(8) as ex:
        out = list(ex.map(one, names))
    for name, meta, res in out:
        if "_patch" in res:
            print("%-8s PATCH DOES NOT APPLY: %s" % (name, res["_patch"][:200]))
            continue
        det = sorted(c for c, (rc, _) in res.items() if rc == 1)
        err = sorted(c for c, (rc, _) in res.items() if rc == 2)
        meta["detected_by"] = det
        meta["analysis_error_in"] = err
        meta["findings"] = {c: f for c, (rc, f) in res.items() if rc != 0}
        json.dump(meta, open(os.path.join(VERIF, "seeded", name, "meta.json"), "w"), indent=1)
        own = meta.get("property")
        flag = "ok" if own in det else ("MISSED" if own in res else "no-check-yet")
        print("%-8s property=%s detected_by=%s analysis_error=%s  [%s]" % (name, own, det, err, flag))
    return 0


if __name__ == "__main__":
    sys.exit(main())
