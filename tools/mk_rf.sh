#!/bin/bash
# (re)create the scratch copies /tmp/verif-rf-<name> = /repo's artap/*.py + refactors/<name>/patch.diff, for tools/rf.sh
cd /verif
for d in refactors/*/; do
  n=$(basename $d); t=/tmp/verif-rf-$n
  rm -rf $t; mkdir -p $t/artap; cp /repo/artap/*.py $t/artap/
  (cd $t && patch -p1 -s -i /verif/$d/patch.diff) || echo "patch $n does not apply"
done
