#!/usr/bin/env python3
"""Every kept seeded change against ITS OWN check only (scratch copy of /repo/artap + patch; nothing in /repo is touched).
Prints the seeds whose own check does not exit 1."""
import os
import shutil
import subprocess
import sys
import tempfile
from concurrent.futures import ThreadPoolExecutor

VERIF = os.path.dirname(os.path.dirname(os.path.abspath(__file__)))


def one(name):
    d = os.path.join(VERIF, "seeded", name)
    tmp = tempfile.mkdtemp(prefix="verif-own-")
    try:
        os.makedirs(os.path.join(tmp, "artap"))
        for fn in os.listdir("/repo/artap"):
            if fn.endswith(".py"):
                shutil.copy(os.path.join("/repo/artap", fn), os.path.join(tmp, "artap", fn))
        p = subprocess.run(["patch", "-p1", "-s", "-i", os.path.join(d, "patch.diff")], cwd=tmp, capture_output=True, text=True)
        if p.returncode != 0:
            return name, "patch", []
        c = name.split("-")[0]
        env = dict(os.environ, VERIF_REPO=tmp, VERIF_OUT=os.path.join(tmp, "out"))
        r = subprocess.run([os.path.join(VERIF, "check"), c], env=env, capture_output=True, text=True)
        return name, r.returncode, [l[:200] for l in r.stdout.splitlines() if l.startswith(("finding:", "INCONCLUSIVE", "ANALYSIS-ERROR"))][:2]
    finally:
        shutil.rmtree(tmp, ignore_errors=True)


def main():
    names = sorted(os.listdir(os.path.join(VERIF, "seeded")))
    bad = 0
    with ThreadPoolExecutor(max_workers=int(sys.argv[1]) if len(sys.argv) > 1 else 10) as ex:
        for name, rc, lines in ex.map(one, names):
            if rc != 1:
                bad += 1
                print("%-8s own check exit %s  %s" % (name, rc, lines))
    print("%d seeds, %d not reported by their own check" % (len(names), bad))


if __name__ == "__main__":
    main()
