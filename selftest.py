#!/usr/bin/env python3
"""Mutation self-test of the checkers (never part of a verdict).

Each mutant is a textual edit of one file of /repo/artap applied to a scratch
copy under $TMPDIR (removed at once).  Expectations:
  V  the owning check must exit 1 and name a finding
  H  behaviour-preserving twin: the owning check must exit 0
For every mutant all *other* built checks listed in `also` (default: none, or
all with --cross) must not exit 1.

usage: selftest.py [--prop C20] [--cross] [-j 16] [--seeded]
"""
import argparse
import ast
import json
import os
import shutil
import subprocess
import sys
import tempfile
from concurrent.futures import ThreadPoolExecutor

HERE = os.path.dirname(os.path.abspath(__file__))
sys.path.insert(0, HERE)
from sa.mutants import MUTANTS  # noqa: E402

REPO = os.environ.get("VERIF_REPO", "/repo")


def built_checks():
    with open(os.path.join(HERE, "MANIFEST.json")) as fh:
        return [c["property_id"] for c in json.load(fh)["checks"]]


def run_check(prop, root, out):
    env = dict(os.environ, VERIF_REPO=root, VERIF_OUT=out)
    p = subprocess.run([os.path.join(HERE, "check"), prop], env=env, capture_output=True, text=True)
    return p.returncode, p.stdout + p.stderr


def apply_mutant(m, root):
    path = os.path.join(root, "artap", m["file"])
    with open(path) as fh:
        s = fh.read()
    n = s.count(m["old"])
    want = m.get("count", 1)
    if n != want:
        return "anchor text occurs %d times (expected %d)" % (n, want)
    s = s.replace(m["old"], m["new"])
    try:
        ast.parse(s)
    except SyntaxError as e:
        return "mutant does not parse: %s" % e
    with open(path, "w") as fh:
        fh.write(s)
    return None


def one(m, cross, checks):
    tmp = tempfile.mkdtemp(prefix="verif-mut-")
    try:
        os.makedirs(os.path.join(tmp, "artap"))
        for fn in os.listdir(os.path.join(REPO, "artap")):
            if fn.endswith(".py"):
                shutil.copy(os.path.join(REPO, "artap", fn), os.path.join(tmp, "artap", fn))
        err = apply_mutant(m, tmp)
        if err:
            return (m, "BROKEN-MUTANT", err)
        out = os.path.join(tmp, "out")
        code, txt = run_check(m["prop"], tmp, out)
        want = 1 if m["expect"] == "V" else 0
        if m["expect"] == "Q":
            # a correct variant the rules need not be able to prove: any verdict but an alarm
            want = code if code in (0, 2) else 0
        status = "ok" if code == want else "MISS"
        detail = ""
        if status == "MISS":
            detail = "exit %d, expected %d\n%s" % (code, want, txt[-1500:])
        elif m["expect"] == "V" and m.get("names") and m["names"] not in txt:
            status, detail = "MISS", "violation reported but does not name %r\n%s" % (m["names"], txt[-1500:])
        if cross and status == "ok":
            for other in checks:
                if other == m["prop"] or other in m.get("also_breaks", ()):
                    continue
                c2, t2 = run_check(other, tmp, out)
                if c2 == 1 and m["expect"] == "H":
                    status, detail = "CROSS-ALARM", "%s raised on behaviour-preserving twin\n%s" % (other, t2[-800:])
                elif c2 == 1 and not m.get("cross_ok"):
                    detail += "(note: %s also alarms) " % other
        return (m, status, detail)
    finally:
        shutil.rmtree(tmp, ignore_errors=True)


def main():
    ap = argparse.ArgumentParser()
    ap.add_argument("--prop")
    ap.add_argument("--cross", action="store_true")
    ap.add_argument("-j", type=int, default=16)
    ap.add_argument("-v", action="store_true")
    a = ap.parse_args()
    checks = built_checks()
    ms = [m for m in MUTANTS if (a.prop is None or m["prop"] == a.prop.upper())]
    with ThreadPoolExecutor(a.j) as ex:
        res = list(ex.map(lambda m: one(m, a.cross, checks), ms))
    bad = 0
    for m, status, detail in res:
        if status != "ok" or a.v:
            print("%-12s %s %s [%s] %s" % (status, m["prop"], m["id"], m["expect"], detail))
        if status != "ok":
            bad += 1
    nv = sum(1 for m in ms if m["expect"] == "V")
    print("selftest: %d mutants (%d violating, %d twins), %d not as expected" % (len(ms), nv, len(ms) - nv, bad))
    return 1 if bad else 0


if __name__ == "__main__":
    sys.exit(main())
